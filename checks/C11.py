from vlib import Spec


def bits_of(bs):
    out = []
    for b in bs:
        for i in range(7, -1, -1):
            out.append((b >> i) & 1)
    return out


def bytes_of(bits):
    out = []
    for i in range(0, len(bits), 8):
        ch = bits[i:i + 8]
        ch = ch + [0] * (8 - len(ch))
        v = 0
        for b in ch:
            v = v * 2 + b
        out.append(v)
    return out


PATTERNS = {"00/FF": (0x00, 0xFF), "FF/00": (0xFF, 0x00), "A5/5A": (0xA5, 0x5A)}


def L(xs):
    return "%d %s" % (len(xs), " ".join(map(str, xs))) if xs else "0"


# ---------------------------------------------------------------------------------------------
# The naive model of a BitBuffer: a Vec<bool> of stored bits (whole bytes) plus the two cursors.
# Written from the property text, independent of the Coq model:
#   * a write of n bits at the write position makes the storage long enough to hold bits
#     [0, wpos+n) (whole bytes, new bits zero), replaces exactly bits [wpos, wpos+n) and advances
#     the write position by n; a source that is too short is an error and changes nothing;
#   * read_bit fails at read_position >= bit_len; a multi-bit read copies bits [rpos, rpos+n) into the
#     destination range and advances the read position by n; it fails, changing nothing, when fewer than
#     n bits lie between the read position and bit_len or the destination is too short;
#   * the scoped combinators set a cursor, run the nested op and put the saved value back.
# ---------------------------------------------------------------------------------------------
class NB:
    def __init__(self, store, w, r):
        self.store = list(store)
        self.w = w
        self.r = r

    def inv(self):
        return len(self.store) == 8 * ((self.w + 7) // 8) and not any(self.store[self.w:])

    def write(self, xs):
        need = 8 * ((self.w + len(xs) + 7) // 8)
        if len(self.store) < need:
            self.store += [0] * (need - len(self.store))
        self.store[self.w:self.w + len(xs)] = xs
        self.w += len(xs)


W_OPS = (1, 2, 7, 11, 12)
R_OPS = (3, 4, 13, 14, 15)
SCOPES = (20, 21, 22)


class Panic(Exception):
    def __init__(self, cls):
        self.cls = cls


def sim_buf_op(nb, ops, i, dev, notes):
    """simulate one (possibly nested) sub-op on the naive buffer. -> (i', expectation, payload_len)
    expectation: ("ok", payload) | ("err",) ; raises Panic(cls) for a documented panic."""
    op = ops[i]
    i += 1
    if op == 1:
        nb.write([1 if ops[i] else 0])
        return i + 1, ("ok", []), 0
    if op in (2, 7, 11, 12):
        soff, slen = 0, None
        if op == 2:
            soff, slen = ops[i], ops[i + 1]
            i += 2
        elif op == 7:
            soff = ops[i]
            i += 1
        elif op == 12:
            slen = ops[i]
            i += 1
        n = ops[i]
        src = bits_of(ops[i + 1:i + 1 + n])
        i += 1 + n
        if slen is None:
            if soff > 8 * n:
                # src.len()*8 - offset underflows: usize arithmetic, a panic with overflow checks
                if dev:
                    raise Panic(2)
                notes.append("unjudged")
                return i, ("any",), 0
            slen = 8 * n - soff
        if soff + slen > 8 * n:
            return i, ("err",), 0
        nb.write(src[soff:soff + slen])
        return i, ("ok", []), 0
    if op == 3:
        if nb.r < nb.w and nb.r < len(nb.store):
            v = nb.store[nb.r]
            nb.r += 1
            return i, ("ok", [v]), 1
        return i, ("err",), 1
    if op in (4, 13, 14, 15):
        doff, dlen = 0, None
        if op == 4:
            doff, dlen = ops[i], ops[i + 1]
            i += 2
        elif op == 14:
            dlen = ops[i]
            i += 1
        elif op == 15:
            doff = ops[i]
            i += 1
        n, fill = ops[i], ops[i + 1]
        i += 2
        if dlen is None:
            if doff > 8 * n:
                if dev:
                    raise Panic(2)
                notes.append("unjudged")
                return i, ("any",), n
            dlen = 8 * n - doff
        # fewer than dlen bits between the read position and bit_len (or a storage / destination that is too
        # short): an error, nothing changes. No tolerance for reads into the padding (repaired in /repo 32291cb)
        if max(0, nb.w - nb.r) < dlen or nb.r + dlen > len(nb.store) or doff + dlen > 8 * n:
            return i, ("err",), n
        d = bits_of([fill] * n)
        d[doff:doff + dlen] = nb.store[nb.r:nb.r + dlen]
        nb.r += dlen
        return i, ("ok", bytes_of(d)), n
    if op == 5:
        pos, bit = ops[i], ops[i + 1]
        _, e, pl = sim_buf_op(nb, [20, pos, 1, bit], 0, dev, notes)
        return i + 2, e, pl
    if op == 16:
        nb.store, nb.w, nb.r = [], 0, 0
        return i, ("ok", []), 0
    if op == 17:
        nb.r = 0
        return i, ("ok", []), 0
    if op == 18:
        n = ops[i]
        need = 8 * ((nb.w + n + 7) // 8)
        if len(nb.store) < need:
            nb.store += [0] * (need - len(nb.store))
        return i + 1, ("ok", []), 0
    if op == 19:
        return i, ("ok", [len(nb.store) // 8, nb.w]), 2
    if op == 20:
        pos = ops[i]
        if dev and pos > len(nb.store):
            raise Panic(5)      # documented: "Positions beyond the current buffer length will result in panics"
        before, nb.w = nb.w, pos
        r = sim_buf_op(nb, ops, i + 1, dev, notes)
        nb.w = before
        return r
    if op == 21:
        pos = ops[i]
        if dev and not pos < nb.w:
            raise Panic(5)      # documented: "Positions beyond the current write-position will result in panics"
        before, nb.r = nb.r, pos
        r = sim_buf_op(nb, ops, i + 1, dev, notes)
        nb.r = before
        return r
    if op == 22:
        before, nb.w = nb.w, nb.r + ops[i]
        r = sim_buf_op(nb, ops, i + 1, dev, notes)
        nb.w = before
        return r
    if op == 30:
        hd = [nb.w, 0, nb.w, 1 if nb.w == 0 else 0]
        if nb.w <= len(nb.store):
            return i, ("ok", hd + [0, nb.w] + bytes_of(nb.store[:nb.w])), None
        return i, ("ok", hd + [1]), None
    raise ValueError("unknown sub-op %d" % op)


def sim_bits_op(st, ops, i, dev, notes):
    """naive Bits view: st = dict(bits, ln, pos). -> (i', expectation, payload_len)"""
    op = ops[i]
    i += 1
    bits = st["bits"]
    lim = min(st["ln"], len(bits))
    if op == 3:
        if st["pos"] < lim:
            v = bits[st["pos"]]
            st["pos"] += 1
            return i, ("ok", [v]), 1
        return i, ("err",), 1
    if op in (4, 13, 14, 15):
        doff, dlen = 0, None
        if op == 4:
            doff, dlen = ops[i], ops[i + 1]
            i += 2
        elif op == 14:
            dlen = ops[i]
            i += 1
        elif op == 15:
            doff = ops[i]
            i += 1
        n, fill = ops[i], ops[i + 1]
        i += 2
        if dlen is None:
            if doff > 8 * n:
                if dev:
                    raise Panic(2)
                notes.append("unjudged")
                return i, ("any",), n
            dlen = 8 * n - doff
        if st["pos"] + dlen > lim or doff + dlen > 8 * n:
            return i, ("err",), n
        d = bits_of([fill] * n)
        d[doff:doff + dlen] = bits[st["pos"]:st["pos"] + dlen]
        st["pos"] += dlen
        return i, ("ok", bytes_of(d)), n
    if op == 8:
        st["pos"] = min(ops[i], st["ln"])
        return i + 1, ("ok", [st["pos"]]), 1
    if op == 9:
        if st["pos"] > st["ln"]:
            if dev:
                raise Panic(2)
            notes.append("unjudged")
            return i, ("any",), 1
        return i, ("ok", [st["ln"] - st["pos"]]), 1
    if op == 10:
        st["ln"] = min(ops[i], len(bits))
        return i + 1, ("ok", [st["ln"]]), 1
    if op == 21:
        orig = st["pos"]
        st["pos"] = min(ops[i], st["ln"])
        r = sim_bits_op(st, ops, i + 1, dev, notes)
        st["pos"] = min(orig, st["ln"])
        return r
    raise ValueError("unknown Bits sub-op %d" % op)


class C11(Spec):
    prop = "C11"
    coq_targets = ["Props/C11.vo"]
    prop_module = "Props.C11"
    theorems = ["C11_bitwise_exact", "C11_bitwise_short", "C11_bitwise_no_panic", "C11_bit_ops", "C11_bulk_exact",
                "C11_bulk_short", "C11_bulk_no_panic", "C11_write_exact", "C11_read_mirror", "C11_bit_ops_copies",
                "C11_buffer_inv_step", "C11_buffer_inv", "C11_buffer_refines",
                "C11_buffer_entry_points", "C11_buffer_write_family", "C11_scope_write_in_place",
                "C11_refuted_scope_write_past_end", "C11_reachable_inv", "C11_public_ops_step", "C11_reads_keep_bits",
                "C11_buffer_reads_within_bit_len"]
    builds = [("default", "dev"), ("default", "release")]
    timeout_per_chunk = 300
    level_text = ("Bit-copy correctness theorems over the byte-level model of slice.rs/buffer.rs against the naive "
                  "list-of-bool splice/slice specification; model tied to the crate by differential execution, "
                  "bounded-exhaustive over (src_off, dst_pos, len) for 5-byte buffers, plus random buffers and op sequences over the "
                  "whole public surface of BitBuffer and Bits (every method, every constructor, the scoped-position combinators "
                  "around any op); reachable-buffer invariant proved for all writes, in-place scoped writes, reads, clear, reset; "
                  "multi-bit reads proved to stop at bit_len; a scoped write past the old end is refuted in Coq and listed (F11-1), "
                  "as is ensure_can_write_additional_bits on its own (F11-2).")
    rule = ("exhaustive (src_offset, dst_position, len) incl. just-out-of-range for 5-byte src/dst with fill patterns dst/src "
            "00/FF and FF/00 (thorough adds A5/5A and random fills) for write_bits_with_offset_len and read_bits_with_offset_len on the "
            "tuple carriers; write_bit/read_bit at every position; random buffers up to 64 bytes; BitBuffer: every public method as a "
            "sub-op (five writes, five reads, clear, reset_read_position, ensure_can_write_additional_bits, with_write_position_at / "
            "with_read_position_at / with_max_read around any sub-op, Bits::from(&buffer)), every constructor (default, with_capacity, "
            "from_bytes, From<Vec<u8>>, from_bits, from_bits_with_position incl. vectors longer than ceil(bit_len/8) and set bits behind "
            "bit_len, and the asserting arguments), byte_len/bit_len/read position/content observed after every step and Into<Vec<u8>> at "
            "the end: all sequences x, x;y, y;x (x from a 234-op alphabet at positions {0,1,7,8,9,15,16} with 1-3 source bytes, y from an "
            "18-op alphabet) on buffers of bit_len {0,1,7,8,9,15,16} reached by writing, and x / y;x on constructor-built buffers; random "
            "sequences (<= 40 ops) from every constructor; Bits: every BitRead/ScopedBitRead method at every cursor/declared length of a "
            "3-byte slice, its three constructors, random sequences; all judged by a Python Vec<bool>-plus-cursors model. non-trivial = "
            "len > 0 and the op succeeded, or a sequence with >= 2 ops that ran to its end; distinct = distinct case line")
    assumptions_text = ["Vec<u8>/slice indexing and copy_from_slice behave as list operations with bounds checks",
                        "64-bit usize"]
    # Oracle classes with `finding:` lines (KNOWN_FINDINGS.txt): scope_write_leaves_long_buffer (F11-1: a write under
    # with_write_position_at / with_max_read that runs past the old end of a buffer satisfying the invariant) and
    # ensure_leaves_long_buffer (F11-2: ensure_can_write_additional_bits called on its own). Any other operation after
    # which a buffer loses "ceil(bit_len/8) bytes, zero padding" is reported as invariant_lost_op_<n> (not listed).

    def gen(self, rng, tier):
        out = []
        pats = ["00/FF", "FF/00"] if tier == "quick" else ["00/FF", "FF/00", "A5/5A", "rnd"]
        nb = 5
        step = 1
        for pn in pats:
            if pn == "rnd":
                d = [rng.randrange(256) for _ in range(nb)]
                s = [rng.randrange(256) for _ in range(nb)]
            else:
                d = [PATTERNS[pn][0]] * nb
                s = [PATTERNS[pn][1]] * nb
            for soff in range(0, 8 * nb + 1):
                for pos in range(0, 8 * nb + 1):
                    maxlen = min(8 * nb - soff, 8 * nb - pos)
                    lens = range(0, maxlen + 2) if tier != "quick" else \
                        sorted(set(list(range(0, min(maxlen, 26) + 1)) + [maxlen - 1, maxlen, maxlen + 1, maxlen // 2 + 9]))
                    for ln in lens:
                        if ln < 0:
                            continue
                        if tier == "quick" and (soff * 7 + pos * 3 + ln) % 3 != 0 and ln > 17 and ln < maxlen - 1:
                            continue
                        out.append("1101 %d %d %d %s %s" % (pos, soff, ln, L(d), L(s)))
                        if tier != "quick" or (soff + pos + ln) % 4 == 0:
                            out.append("1102 %d %d %d %s %s" % (soff, pos, ln, L(s), L(d)))
        # single bit ops at every position (incl. the end)
        for nbytes in (0, 1, 2, 5):
            for fill in (0x00, 0xFF, 0xA5):
                buf = [fill] * nbytes
                for pos in range(0, 8 * nbytes + 3):
                    out.append("1104 %d %s" % (pos, " ".join(map(str, buf))))
                    for bit in (0, 1):
                        out.append("1103 %d %d %s" % (pos, bit, " ".join(map(str, buf))))
        # random buffers up to 64 bytes
        n_rand = 1500 if tier == "quick" else 40000
        for _ in range(n_rand):
            ns_, nd = rng.randrange(0, 65), rng.randrange(0, 65)
            s = [rng.randrange(256) for _ in range(ns_)]
            d = [rng.randrange(256) for _ in range(nd)]
            soff = rng.randrange(0, 8 * ns_ + 2)
            pos = rng.randrange(0, 8 * nd + 2)
            maxlen = max(0, min(8 * ns_ - soff, 8 * nd - pos))
            ln = rng.choice([rng.randrange(0, maxlen + 1), maxlen, maxlen + 1, rng.randrange(0, 8 * 64)])
            if rng.random() < 0.5:
                out.append("1101 %d %d %d %s %s" % (pos, soff, ln, L(d), L(s)))
            else:
                out.append("1102 %d %d %d %s %s" % (soff, pos, ln, L(s), L(d)))
        out += self.gen_small(tier)
        out += self.gen_random_seqs(rng, tier)
        return out

    # ---- deterministic part: short sequences over a small alphabet at the boundary positions ----
    POS = (0, 1, 7, 8, 9, 15, 16)
    SRC = {1: [0xA5], 2: [0xC3, 0x5A], 3: [0x96, 0xFF, 0x0F]}

    def alphabet(self):
        """-> (full, small): lists of sub-ops (int lists)"""
        S = self.SRC
        writes = [[1, 1], [1, 0]]
        for k in (1, 2, 3):
            writes += [[11] + [k] + S[k],                       # write_bits
                       [12, 8 * k - 3, k] + S[k],               # write_bits_with_len
                       [7, 5, k] + S[k],                        # write_bits_with_offset
                       [2, 3, 8 * k - 6, k] + S[k]]             # write_bits_with_offset_len
        writes += [[12, 8, 1] + S[1], [12, 17, 2] + S[2],       # whole byte / too long for the source
                   [7, 0, 2] + S[2], [7, 16, 2] + S[2],         # offset 0 / nothing left
                   [2, 0, 24, 3] + S[3], [2, 8, 17, 3] + S[3]]  # bulk path / source too short
        reads = [[3], [13, 1, 0], [13, 2, 255], [13, 3, 0], [14, 5, 1, 255], [14, 9, 2, 0],
                 [15, 3, 2, 0], [15, 8, 1, 255], [4, 2, 9, 2, 0], [4, 0, 17, 3, 255], [4, 7, 2, 1, 0]]
        scoped_w = [[20, p] + w for p in self.POS for w in writes]
        scoped_r = [[21, p] + r for p in self.POS for r in ([3], [13, 1, 0], [14, 9, 2, 255], [4, 3, 4, 1, 0])]
        scoped_m = [[22, mx] + r for mx in (0, 1, 8, 9) for r in ([3], [13, 1, 0], [19], [30])]
        misc = [[16], [17], [18, 0], [18, 1], [18, 9], [19], [30], [5, 0, 1], [5, 7, 0], [5, 8, 1]]
        nested = [[20, 8, 20, 0] + w for w in ([11, 1] + S[1], [1, 1])] + [[20, 0, 21, 0, 13, 1, 0], [21, 0, 20, 8] + [11, 2] + S[2],
                  [22, 8, 20, 0, 11, 1] + S[1], [20, 0, 3], [20, 8, 13, 1, 0], [21, 1, 1, 1], [22, 16, 11, 1] + S[1]]
        full = writes + reads + scoped_w + scoped_r + scoped_m + misc + nested
        small = [[1, 1], [11, 1] + S[1], [11, 2] + S[2], [2, 3, 10, 2] + S[2], [12, 5, 1] + S[1],
                 [20, 0, 11, 1] + S[1], [20, 8, 11, 2] + S[2], [20, 1, 11, 1] + S[1], [20, 8, 12, 3, 1] + S[1],
                 [20, 0, 7, 0, 3] + S[3], [3], [13, 1, 0], [13, 3, 255], [21, 0, 13, 2, 0], [14, 9, 2, 0], [30], [18, 8], [16]]
        return full, small

    def gen_small(self, tier):
        out = []
        full, small = self.alphabet()
        fill = [0xE7, 0x3C, 0x99]

        def j(xs):
            return " ".join(map(str, xs))
        for p in self.POS:
            # a buffer reached from the empty one: write_bits_with_len(fill, p)
            pre = [12, p, 3] + fill
            for x in full:
                out.append("1110 " + j(pre + x))
                for y in (full if (tier != "quick" or p in (8, 9)) else small):
                    out.append("1110 " + j(pre + x + y))
                    out.append("1110 " + j(pre + y + x))
            # constructor-built buffers with bit_len p: exact Vec, Vec with spare zero bytes, Vec with set bits
            # behind bit_len, and the same with a read position
            nb = (p + 7) // 8
            exact = [b & (0xFF << (8 * (i + 1) - p) if 8 * (i + 1) > p else 0xFF) & 0xFF for i, b in enumerate(fill[:nb])]
            ctors = [[3, nb] + exact + [p], [3, 3, ] + (exact + [0, 0, 0])[:3] + [p], [3, 3] + fill + [p],
                     [4, 3] + fill + [p, min(p, 3)], [4, 4] + (exact + [0, 0, 0, 0])[:4] + [p, 0]]
            for ci, c in enumerate(ctors):
                for x in full:
                    out.append("1112 " + j(c + x))
                if ci in (1, 2):
                    for x in full:
                        for y in small[:10]:
                            out.append("1112 " + j(c + y + x))
        # constructors on their own, incl. the asserting ones
        for n in (0, 1, 2, 3):
            bs = fill[:n]
            out.append("1112 " + j([2, n] + bs + [30, 3, 11, 1, 0xA5]))
            out.append("1112 " + j([5, n] + bs + [30, 3, 11, 1, 0xA5]))
            for bl in range(0, 8 * n + 2):
                out.append("1112 " + j([3, n] + bs + [bl, 30, 1, 1, 3]))
                out.append("1113 " + j([1, n] + bs + [bl, 3, 13, 1, 0, 9]))
                for rp in (0, 1, 8 * n, 8 * n + 1):
                    out.append("1112 " + j([4, n] + bs + [bl, rp, 3, 13, 1, 0, 1, 1]))
                    out.append("1113 " + j([2, n] + bs + [bl, rp, 3, 13, 1, 0, 9]))
            out.append("1113 " + j([0, n] + bs + [3, 13, 1, 0, 9, 15, 3, 1, 255, 14, 3, 1, 0]))
        for cap in (0, 1, 7, 64):
            out.append("1112 " + j([1, cap, 19, 11, 2, 1, 2, 30]))
        out.append("1112 0")
        # Bits: every read method at every cursor of a 3-byte slice with the declared lengths around the byte borders
        sl = [0xE7, 0x3C, 0x99]
        rops = [[3], [13, 1, 0], [13, 2, 255], [14, 5, 1, 0], [14, 9, 2, 255], [15, 3, 1, 0], [15, 1, 2, 255], [4, 2, 9, 2, 0], [4, 0, 17, 3, 0],
                [21, 0, 13, 1, 0], [21, 9, 3], [21, 30, 14, 1, 1, 0], [9]]
        for ln in (0, 1, 7, 8, 9, 15, 16, 17, 23, 24):
            for pos in self.POS + (17, 23, 24):
                for x in rops:
                    out.append("1113 " + j([1, 3] + sl + [ln, 8, pos] + x + [9]))
                    if ln in (9, 24) and pos in (0, 1, 8):
                        for y in rops:
                            out.append("1113 " + j([1, 3] + sl + [ln, 8, pos] + x + y + [9]))
        return out

    # ---- random sequences over the whole surface ----
    def rand_pos(self, rng, hi):
        """a position in 0..=hi, biased to the ends and to byte borders"""
        k = rng.random()
        if k < 0.2:
            return hi
        if k < 0.3:
            return 0
        if k < 0.6:
            return min(hi, 8 * rng.randrange(0, hi // 8 + 1))
        return rng.randrange(0, hi + 1)

    def rand_write(self, rng):
        k = rng.random()
        n = rng.choice([0, 1, 1, 2, 2, 3, 3, 4, rng.randrange(0, 9)])
        src = [rng.randrange(256) for _ in range(n)]
        if k < 0.2:
            return [1, rng.randrange(2)], 1
        if k < 0.4:
            return [11, n] + src, 8 * n
        if k < 0.55:
            ln = rng.choice([rng.randrange(0, 8 * n + 1), 8 * n, 8 * n + (1 if rng.random() < 0.15 else 0)])
            return [12, ln, n] + src, (ln if ln <= 8 * n else 0)
        if k < 0.7:
            soff = rng.choice([0, rng.randrange(0, 8 * n + 1), 8 * n])
            return [7, soff, n] + src, 8 * n - soff
        soff = rng.randrange(0, 8 * n + 1)
        mx = 8 * n - soff
        ln = rng.choice([rng.randrange(0, mx + 1), mx, mx + (1 if rng.random() < 0.1 else 0)])
        return [2, soff, ln, n] + src, (ln if ln <= mx else 0)

    def rand_read(self, rng):
        k = rng.random()
        n = rng.randrange(0, 6)
        fill = rng.choice([0, 255])
        if k < 0.25:
            return [3]
        if k < 0.45:
            return [13, n, fill]
        if k < 0.6:
            return [14, rng.randrange(0, 8 * n + 1), n, fill]
        if k < 0.75:
            return [15, rng.randrange(0, 8 * n + 1), n, fill]
        doff = rng.randrange(0, 8 * n + 1)
        return [4, doff, rng.randrange(0, 8 * n - doff + 1 + (1 if rng.random() < 0.05 else 0)), n, fill]

    def gen_random_seqs(self, rng, tier):
        out = []
        n_seq = 2500 if tier == "quick" else 30000
        for si in range(n_seq):
            # constructor
            k = rng.random()
            nbytes = rng.randrange(0, 6)
            bs = [rng.choice([0, 255, rng.randrange(256)]) for _ in range(nbytes)]
            if k < 0.45:
                head, wpos, blen = "1110", 0, 0
            elif k < 0.5:
                head, wpos, blen = "1112 1 %d" % rng.randrange(0, 64), 0, 0
            elif k < 0.6:
                head, wpos, blen = "1112 %d %s" % (rng.choice([2, 5]), L(bs)), 8 * nbytes, nbytes
            elif k < 0.8:
                wpos = self.rand_pos(rng, 8 * nbytes)
                head, blen = "1112 3 %s %d" % (L(bs), wpos), nbytes
            else:
                wpos = self.rand_pos(rng, 8 * nbytes)
                head, blen = "1112 4 %s %d %d" % (L(bs), wpos, self.rand_pos(rng, 8 * nbytes)), nbytes
            ops = []
            # wpos / blen: generator-side estimate of bit_len and byte_len (only used to aim positions)
            for _ in range(rng.randrange(1, 41)):
                k = rng.random()
                if k < 0.38:
                    w, n = self.rand_write(rng)
                    ops += w
                    wpos += n
                    blen = max(blen, (wpos + 7) // 8)
                elif k < 0.58:
                    ops += self.rand_read(rng)
                elif k < 0.8:
                    # with_write_position_at(pos, any write): anywhere in 0..=bit_len, sometimes up to the end of the
                    # byte vector, rarely one past it (documented panic in a debug build)
                    hi = wpos if rng.random() < 0.85 else 8 * blen
                    pos = self.rand_pos(rng, hi)
                    if rng.random() < 0.01:
                        pos = 8 * blen + 1
                    w, n = self.rand_write(rng)
                    if rng.random() < 0.1:
                        w, n = [1, rng.randrange(2)], 1
                        ops += [5, pos, w[1]]
                    else:
                        ops += [20, pos] + w
                    blen = max(blen, (pos + n + 7) // 8)
                elif k < 0.87:
                    if wpos > 0 or rng.random() < 0.02:
                        pos = self.rand_pos(rng, max(0, wpos - 1)) if rng.random() < 0.98 else wpos
                        ops += [21, pos] + self.rand_read(rng)
                elif k < 0.91:
                    inner = rng.choice([self.rand_read(rng), [19], [30], self.rand_write(rng)[0] if rng.random() < 0.3 else [3]])
                    ops += [22, rng.randrange(0, 20)] + inner
                    if inner[0] in W_OPS:
                        blen = max(blen, 8)   # unknown; aim generously
                elif k < 0.93:
                    ops += [16]
                    wpos, blen = 0, 0
                elif k < 0.95:
                    ops += [17]
                elif k < 0.96:
                    n = rng.randrange(0, 20)
                    ops += [18, n]
                    blen = max(blen, (wpos + n + 7) // 8)
                elif k < 0.98:
                    ops += [30]
                else:
                    ops += [19]
            out.append((head + " " + " ".join(map(str, ops))).strip())
        # op sequences on Bits
        n_bits = 1200 if tier == "quick" else 12000
        for _ in range(n_bits):
            n = rng.randrange(0, 9)
            sl = [rng.randrange(256) for _ in range(n)]
            ln = rng.choice([8 * n, rng.randrange(0, 8 * n + 1)])
            cur_len = ln
            ops = []
            for _ in range(rng.randrange(1, 25)):
                k = rng.random()
                if k < 0.55:
                    ops += self.rand_read(rng)
                elif k < 0.7:
                    ops += [21, rng.randrange(0, 8 * n + 3)] + (self.rand_read(rng) if rng.random() < 0.8 else [9])
                elif k < 0.8:
                    ops += [8, rng.randrange(0, 8 * n + 3)]
                elif k < 0.95:
                    ops += [9]
                else:
                    # set_len never below the current length (pos <= len is the view's invariant;
                    # shrinking below the cursor is caller misuse, not decoding)
                    cur_len = min(8 * n, rng.randrange(cur_len, 8 * n + 10))
                    ops += [10, cur_len]
            c = rng.random()
            if c < 0.4:
                out.append("1111 %d %s %s" % (ln, L(sl), " ".join(map(str, ops))))
            elif c < 0.6:
                if ln != 8 * n:
                    ops = [10, ln] + ops
                out.append("1113 0 %s %s" % (L(sl), " ".join(map(str, ops))))
            elif c < 0.8:
                out.append("1113 1 %s %d %s" % (L(sl), ln, " ".join(map(str, ops))))
            else:
                out.append("1113 2 %s %d %d %s" % (L(sl), ln, rng.randrange(0, 8 * n + 1), " ".join(map(str, ops))))
        return out

    # ---- oracle: the naive bit-vector model, in Python ----
    def oracle(self, line, out, build):
        try:
            return self._oracle(line, out, build)
        except (IndexError, ValueError) as e:
            return ("malformed_answer", "answer cannot be read as the records of this case: %s (%r)" % (out[:80], e))

    def _oracle(self, line, out, build):
        a = list(map(int, line.split()))
        o = list(map(int, out.split()))
        op = a[0]
        if o[:1] == [3] or (o[:1] == [2] and op in (1101, 1102, 1103, 1104)):
            return ("panic", "panic/crash instead of Ok/Err: %s" % out)
        if op in (1101, 1102):
            pos, soff, ln = a[1], a[2], a[3]
            nd = a[4]
            d = a[5:5 + nd]
            ns_ = a[5 + nd]
            s = a[6 + nd:6 + nd + ns_]
            # for 1102 the roles are (cursor=pos over first list as source, second list as destination)
            if op == 1101:
                dst, src, dpos, spos = d, s, pos, soff
            else:
                src, dst, spos, dpos = d, s, pos, soff
            fits = spos + ln <= 8 * len(src) and dpos + ln <= 8 * len(dst)
            if not fits:
                if o[0] != 1:
                    return ("short_not_err", "source/destination too short but result is %s" % o[:2])
                return None
            if o[0] != 0:
                return ("spurious_err", "in-range copy failed: %s" % o[:2])
            db, sb = bits_of(dst), bits_of(src)
            want = db[:dpos] + sb[spos:spos + ln] + db[dpos + ln:]
            got = bits_of(o[2:])
            if o[1] != pos + ln:
                return ("cursor", "cursor %d, expected %d" % (o[1], pos + ln))
            if got != want:
                bad = [i for i, (x, y) in enumerate(zip(got, want)) if x != y]
                cls = "outside_range_clobbered" if all(i < dpos or i >= dpos + ln for i in bad) else "wrong_bits"
                return (cls, "destination bits differ at %s (range %d..%d)" % (bad[:8], dpos, dpos + ln))
            return None
        if op == 1103:
            pos, bit, d = a[1], a[2], a[3:]
            if pos + 1 > 8 * len(d):
                return None if o[0] == 1 else ("short_not_err", "write_bit past end: %s" % o[:2])
            db = bits_of(d)
            db[pos] = 1 if bit else 0
            if o[0] != 0 or o[1] != pos + 1 or bits_of(o[2:]) != db:
                return ("wrong_bits", "write_bit result %s" % o[:6])
            return None
        if op == 1104:
            pos, s = a[1], a[2:]
            if pos + 1 > 8 * len(s):
                return None if o[0] == 1 else ("short_not_err", "read_bit past end: %s" % o[:2])
            if o != [0, pos + 1, bits_of(s)[pos]]:
                return ("wrong_bits", "read_bit result %s" % o)
            return None
        dev = build[1] == "dev"
        if op == 1110:
            return self._oracle_buf_seq(NB([], 0, 0), a[1:], o, dev, line)
        if op == 1111:
            ln, n = a[1], a[2]
            if dev and ln > 8 * n:
                return None if o == [2, 5] else ("panic", "Bits::from((slice, len)) with len > 8*|slice|: expected the debug assertion, got %s" % o[:2])
            return self._oracle_bits_seq({"bits": bits_of(a[3:3 + n]), "ln": ln, "pos": 0}, n, a[3 + n:], o, dev)
        if op == 1112:
            st, ops = self._buf_ctor(a[1:])
            if st is None:
                return None if o == [2, 5] else ("panic", "constructor assertion expected, got %s" % o[:2])
            return self._oracle_buf_seq(st, ops, o, dev, line)
        if op == 1113:
            k, n = a[1], a[2]
            sl = a[3:3 + n]
            rest = a[3 + n:]
            if k == 0:
                return self._oracle_bits_seq({"bits": bits_of(sl), "ln": 8 * n, "pos": 0}, n, rest, o, dev)
            if k == 1:
                ln = rest[0]
                if dev and ln > 8 * n:
                    return None if o == [2, 5] else ("panic", "Bits::from((slice, len)) with len > 8*|slice|: expected the debug assertion, got %s" % o[:2])
                return self._oracle_bits_seq({"bits": bits_of(sl), "ln": ln, "pos": 0}, n, rest[1:], o, dev)
            if k == 2:
                w, r = rest[0], rest[1]
                if w > 8 * n or r > 8 * n:
                    return None if o == [2, 5] else ("panic", "constructor assertion expected, got %s" % o[:2])
                # Bits::from(&BitBuffer): the view starts at 0 with len = bit_len()
                return self._oracle_bits_seq({"bits": bits_of(sl), "ln": w, "pos": 0}, n, rest[2:], o, dev)
        return None

    @staticmethod
    def _buf_ctor(a):
        """-> (NB | None when the constructor asserts, ops)"""
        k = a[0]
        if k == 0:
            return NB([], 0, 0), a[1:]
        if k == 1:
            return NB([], 0, 0), a[2:]
        n = a[1]
        bs = a[2:2 + n]
        rest = a[2 + n:]
        if k in (2, 5):
            return NB(bits_of(bs), 8 * n, 0), rest
        if k == 3:
            return (NB(bits_of(bs), rest[0], 0) if rest[0] <= 8 * n else None), rest[1:]
        if k == 4:
            ok = rest[0] <= 8 * n and rest[1] <= 8 * n
            return (NB(bits_of(bs), rest[0], rest[1]) if ok else None), rest[2:]
        raise ValueError("ctor %d" % k)

    @staticmethod
    def _take_record(o, k, exp, plen):
        """parse one sub-op record at o[k:]; -> (k', status, payload)"""
        st = o[k]
        k += 1
        if st == 1:
            return k + 1, 1, [o[k]]
        if plen is None:
            # Bits probe: len pos remaining is_empty, then 0 pos' bytes | 1 kind | 3
            hd = o[k:k + 4]
            k += 4
            t = o[k]
            k += 1
            if t == 0:
                nbytes = (hd[0] + 7) // 8
                return k + 1 + nbytes, 0, hd + [0] + o[k:k + 1 + nbytes]
            if t == 1:
                return k + 1, 0, hd + [1]
            return k, 0, hd + [t]
        return k + plen, 0, o[k:k + plen]

    def _oracle_bits_seq(self, st, nbytes, ops, o, dev):
        i = 0
        k = 1
        notes = []

        def state(k):
            sl, l2, p2, emp = o[k:k + 4]
            if sl != nbytes or l2 != st["ln"] or p2 != st["pos"]:
                return ("cursor", "Bits (len,pos) = (%d,%d), expected (%d,%d)" % (l2, p2, st["ln"], st["pos"]))
            if emp != (1 if st["ln"] == 0 else 0):
                return ("cursor", "is_empty() = %d at len %d" % (emp, st["ln"]))
            return None
        # walk the naive model first: a documented panic anywhere makes the whole answer "2 class"
        try:
            steps = []
            st2 = dict(st)
            j = 0
            while j < len(ops):
                j, exp, plen = sim_bits_op(st2, ops, j, dev, notes)
                steps.append((exp, plen, dict(st2)))
        except Panic as pn:
            return None if o == [2, pn.cls] else ("panic", "expected panic class %d (usize underflow in a debug build), got %s" % (pn.cls, o[:2]))
        if o[0] != 0:
            return ("panic", "sequence aborted: %s" % o[:2])
        f = state(k)
        if f:
            return f
        k += 4
        for (exp, plen, snap) in steps:
            k, status, payload = self._take_record(o, k, exp, plen)
            if exp[0] == "any":
                return None
            if status == 1 and exp[0] == "ok":
                return ("spurious_err", "Bits op failed unexpectedly (kind %s)" % payload)
            if status == 0 and exp[0] == "err":
                return ("read_past_len", "Bits read succeeded beyond the declared length %d / the slice" % st["ln"])
            if status == 0 and payload != exp[1]:
                return ("wrong_bits", "Bits op returned %s, expected %s" % (payload[:12], exp[1][:12]))
            st.update(snap)
            f = state(k)
            if f:
                return f
            k += 4
        if k != len(o):
            return ("wrong_bits", "trailing output %s" % o[k:k + 8])
        return None

    def _oracle_buf_seq(self, nb, ops, o, dev, line):
        notes = []
        # 1. walk the naive model over the whole sequence
        steps = []
        clean = nb.inv()
        first = (list(nb.store), nb.w, nb.r)
        try:
            j = 0
            while j < len(ops):
                top = ops[j]
                jj = j
                scoped = top == 5
                while ops[jj] in SCOPES:
                    scoped = scoped or ops[jj] in (20, 22)
                    jj += 2
                nn = []
                j, exp, plen = sim_buf_op(nb, ops, j, dev, nn)
                steps.append((top, scoped, exp, plen, list(nb.store), nb.w, nb.r, nn))
        except Panic as pn:
            return None if o == [2, pn.cls] else ("panic", "expected the documented panic (class %d), got %s" % (pn.cls, o[:2]))
        if o[0] != 0:
            return ("panic", "sequence aborted: %s" % o[:2])
        k = 1

        def state(k, store, w, r, what):
            blen, wp, rp = o[k:k + 3]
            content = o[k + 3:k + 3 + blen]
            k += 3 + blen
            if wp != w:
                return k, ("cursor", "bit_len %d, expected %d %s" % (wp, w, what))
            if rp != r:
                return k, ("cursor", "read position %d, expected %d %s" % (rp, r, what))
            if 8 * blen != len(store):
                return k, ("buffer_len", "buffer is %d bytes long at bit_len %d %s, expected %d" % (blen, wp, what, len(store) // 8))
            if content != bytes_of(store):
                got = bits_of(content)
                bad = [x for x in range(len(store)) if got[x] != store[x]]
                cls = "padding" if all(x >= w for x in bad) else "wrong_bits"
                return k, (cls, "stored bits differ at %s %s (bit_len %d)" % (bad[:8], what, w))
            return k, None
        k, f = state(k, first[0], first[1], first[2], "after the constructor")
        if f:
            return f
        judged = []
        for (top, scoped, exp, plen, store, w, r, nn) in steps:
            what = "after op %d" % top
            k, status, payload = self._take_record(o, k, exp, plen)
            if exp[0] == "any":
                return None
            if status == 1 and exp[0] == "ok":
                return ("spurious_err", "op %d failed unexpectedly (kind %s)" % (top, payload))
            if status == 0 and exp[0] == "err":
                return ("short_not_err", "op %d should have failed" % top)
            if status == 0 and payload != exp[1]:
                return ("wrong_bits", "op %d returned %s, expected %s" % (top, payload[:12], exp[1][:12]))
            k, f = state(k, store, w, r, what + (" (failed)" if status == 1 else ""))
            if f:
                return f
            # 2. the invariant of the property on the (now confirmed) state: candidates, not failures
            now = len(store) == 8 * ((w + 7) // 8) and not any(store[w:])
            found = []
            if clean and not now:
                found.append({18: "ensure_leaves_long_buffer"}.get(top, "scope_write_leaves_long_buffer" if scoped else "invariant_lost_op_%d" % top))
            for cls in found:
                judged.append((cls, "after op %d the buffer is %d bytes long at bit_len %d (content %s): it satisfied "
                               "'ceil(bit_len/8) bytes, zero padding' before" % (top, len(store) // 8, w, bytes_of(store)[:6])))
            clean = now
        if judged:
            return judged
        if o[k:] != bytes_of(steps[-1][4] if steps else first[0]):
            return ("wrong_bits", "Into<Vec<u8>> gives %s" % o[k:k + 8])
        return None

    def nontrivial(self, line, out):
        a = line.split()
        if a[0] in ("1101", "1102"):
            return out.startswith("0") and a[3] != "0"
        if a[0] in ("1110", "1111", "1112", "1113"):
            return out.startswith("0") and len(a) > 6
        return out.startswith("0")


SPEC = C11()
