from vlib import Spec


def bits_of(bs):
    out = []
    for b in bs:
        for i in range(7, -1, -1):
            out.append((b >> i) & 1)
    return out


def bytes_of(bits):
    out = []
    for i in range(0, len(bits), 8):
        ch = bits[i:i + 8]
        ch = ch + [0] * (8 - len(ch))
        v = 0
        for b in ch:
            v = v * 2 + b
        out.append(v)
    return out


PATTERNS = {"00/FF": (0x00, 0xFF), "FF/00": (0xFF, 0x00), "A5/5A": (0xA5, 0x5A)}


def L(xs):
    return "%d %s" % (len(xs), " ".join(map(str, xs))) if xs else "0"


class C11(Spec):
    prop = "C11"
    coq_targets = ["Props/C11.vo"]
    prop_module = "Props.C11"
    theorems = ["C11_bitwise_exact", "C11_bitwise_short", "C11_bitwise_no_panic", "C11_bit_ops", "C11_bulk_exact",
                "C11_bulk_short", "C11_bulk_no_panic", "C11_write_exact", "C11_read_mirror", "C11_bit_ops_copies",
                "C11_buffer_inv_step", "C11_buffer_inv", "C11_buffer_refines"]
    builds = [("default", "dev"), ("default", "release")]
    timeout_per_chunk = 300
    level_text = ("Bit-copy correctness theorems over the byte-level model of slice.rs/buffer.rs against the naive "
                  "list-of-bool splice/slice specification; model tied to the crate by differential execution, "
                  "bounded-exhaustive over (src_off, dst_pos, len) for 5-byte buffers, plus random buffers and op sequences.")
    rule = ("exhaustive (src_offset, dst_position, len) incl. just-out-of-range for 5-byte src/dst with fill patterns dst/src "
            "00/FF and FF/00 (thorough adds A5/5A and random fills) for write_bits_with_offset_len and read_bits_with_offset_len on the "
            "tuple carriers; write_bit/read_bit at every position; random buffers up to 64 bytes; BitBuffer and Bits operation "
            "sequences (<= 40 ops) checked against a Python list-of-bool model. non-trivial = len > 0 and the op succeeded, or "
            "a sequence with >= 2 successful ops; distinct = distinct case line")
    assumptions_text = ["Vec<u8>/slice indexing and copy_from_slice behave as list operations with bounds checks",
                        "64-bit usize"]

    def gen(self, rng, tier):
        out = []
        pats = ["00/FF", "FF/00"] if tier == "quick" else ["00/FF", "FF/00", "A5/5A", "rnd"]
        nb = 5
        step = 1
        for pn in pats:
            if pn == "rnd":
                d = [rng.randrange(256) for _ in range(nb)]
                s = [rng.randrange(256) for _ in range(nb)]
            else:
                d = [PATTERNS[pn][0]] * nb
                s = [PATTERNS[pn][1]] * nb
            for soff in range(0, 8 * nb + 1):
                for pos in range(0, 8 * nb + 1):
                    maxlen = min(8 * nb - soff, 8 * nb - pos)
                    lens = range(0, maxlen + 2) if tier != "quick" else \
                        sorted(set(list(range(0, min(maxlen, 26) + 1)) + [maxlen - 1, maxlen, maxlen + 1, maxlen // 2 + 9]))
                    for ln in lens:
                        if ln < 0:
                            continue
                        if tier == "quick" and (soff * 7 + pos * 3 + ln) % 3 != 0 and ln > 17 and ln < maxlen - 1:
                            continue
                        out.append("1101 %d %d %d %s %s" % (pos, soff, ln, L(d), L(s)))
                        if tier != "quick" or (soff + pos + ln) % 4 == 0:
                            out.append("1102 %d %d %d %s %s" % (soff, pos, ln, L(s), L(d)))
        # single bit ops at every position (incl. the end)
        for nbytes in (0, 1, 2, 5):
            for fill in (0x00, 0xFF, 0xA5):
                buf = [fill] * nbytes
                for pos in range(0, 8 * nbytes + 3):
                    out.append("1104 %d %s" % (pos, " ".join(map(str, buf))))
                    for bit in (0, 1):
                        out.append("1103 %d %d %s" % (pos, bit, " ".join(map(str, buf))))
        # random buffers up to 64 bytes
        n_rand = 1500 if tier == "quick" else 40000
        for _ in range(n_rand):
            ns_, nd = rng.randrange(0, 65), rng.randrange(0, 65)
            s = [rng.randrange(256) for _ in range(ns_)]
            d = [rng.randrange(256) for _ in range(nd)]
            soff = rng.randrange(0, 8 * ns_ + 2)
            pos = rng.randrange(0, 8 * nd + 2)
            maxlen = max(0, min(8 * ns_ - soff, 8 * nd - pos))
            ln = rng.choice([rng.randrange(0, maxlen + 1), maxlen, maxlen + 1, rng.randrange(0, 8 * 64)])
            if rng.random() < 0.5:
                out.append("1101 %d %d %d %s %s" % (pos, soff, ln, L(d), L(s)))
            else:
                out.append("1102 %d %d %d %s %s" % (soff, pos, ln, L(s), L(d)))
        # op sequences on BitBuffer
        n_seq = 400 if tier == "quick" else 8000
        for _ in range(n_seq):
            ops = []
            wpos = 0
            for _ in range(rng.randrange(1, 41)):
                k = rng.random()
                if k < 0.25:
                    ops += [1, rng.randrange(2)]
                    wpos += 1
                elif k < 0.6:
                    n = rng.randrange(0, 9)
                    src = [rng.randrange(256) for _ in range(n)]
                    soff = rng.randrange(0, 8 * n + 1)
                    mx = 8 * n - soff
                    slen = rng.choice([rng.randrange(0, mx + 1), mx, mx + (1 if rng.random() < 0.1 else 0)])
                    ops += [2, soff, slen] + [n] + src
                    if slen <= mx:
                        wpos += slen
                elif k < 0.7:
                    n = rng.randrange(0, 5)
                    src = [rng.randrange(256) for _ in range(n)]
                    soff = rng.randrange(0, 8 * n + 1)
                    ops += [7, soff, n] + src
                    wpos += 8 * n - soff
                elif k < 0.8:
                    ops += [3]
                elif k < 0.93:
                    n = rng.randrange(0, 6)
                    doff = rng.randrange(0, 8 * n + 1)
                    dlen = rng.randrange(0, 8 * n - doff + 1)
                    ops += [4, doff, dlen, n, rng.choice([0, 255])]
                elif wpos > 0:
                    ops += [5, rng.randrange(wpos), rng.randrange(2)]
            out.append("1110 " + " ".join(map(str, ops)))
        # op sequences on Bits
        for _ in range(n_seq):
            n = rng.randrange(0, 9)
            sl = [rng.randrange(256) for _ in range(n)]
            ln = rng.choice([8 * n, rng.randrange(0, 8 * n + 1)])
            cur_len = ln
            ops = []
            for _ in range(rng.randrange(1, 25)):
                k = rng.random()
                if k < 0.35:
                    ops += [3]
                elif k < 0.7:
                    m = rng.randrange(0, 5)
                    doff = rng.randrange(0, 8 * m + 1)
                    dlen = rng.randrange(0, 8 * m - doff + 1)
                    ops += [4, doff, dlen, m, rng.choice([0, 255])]
                elif k < 0.8:
                    ops += [8, rng.randrange(0, 8 * n + 3)]
                elif k < 0.95:
                    ops += [9]
                else:
                    # set_len never below the current length (pos <= len is the view's invariant;
                    # shrinking below the cursor is caller misuse, not decoding)
                    cur_len = min(8 * n, rng.randrange(cur_len, 8 * n + 10))
                    ops += [10, cur_len]
            out.append("1111 %d %s %s" % (ln, L(sl), " ".join(map(str, ops))))
        return out

    # ---- oracle: the naive bit-vector model, in Python ----
    def oracle(self, line, out, build):
        a = list(map(int, line.split()))
        o = list(map(int, out.split()))
        op = a[0]
        if o[:1] in ([2], [3]):
            return ("panic", "panic/crash instead of Ok/Err: %s" % out)
        if op in (1101, 1102):
            pos, soff, ln = a[1], a[2], a[3]
            nd = a[4]
            d = a[5:5 + nd]
            ns_ = a[5 + nd]
            s = a[6 + nd:6 + nd + ns_]
            # for 1102 the roles are (cursor=pos over first list as source, second list as destination)
            if op == 1101:
                dst, src, dpos, spos = d, s, pos, soff
            else:
                src, dst, spos, dpos = d, s, pos, soff
            fits = spos + ln <= 8 * len(src) and dpos + ln <= 8 * len(dst)
            if not fits:
                if o[0] != 1:
                    return ("short_not_err", "source/destination too short but result is %s" % o[:2])
                return None
            if o[0] != 0:
                return ("spurious_err", "in-range copy failed: %s" % o[:2])
            db, sb = bits_of(dst), bits_of(src)
            want = db[:dpos] + sb[spos:spos + ln] + db[dpos + ln:]
            got = bits_of(o[2:])
            if o[1] != pos + ln:
                return ("cursor", "cursor %d, expected %d" % (o[1], pos + ln))
            if got != want:
                bad = [i for i, (x, y) in enumerate(zip(got, want)) if x != y]
                cls = "outside_range_clobbered" if all(i < dpos or i >= dpos + ln for i in bad) else "wrong_bits"
                return (cls, "destination bits differ at %s (range %d..%d)" % (bad[:8], dpos, dpos + ln))
            return None
        if op == 1103:
            pos, bit, d = a[1], a[2], a[3:]
            if pos + 1 > 8 * len(d):
                return None if o[0] == 1 else ("short_not_err", "write_bit past end: %s" % o[:2])
            db = bits_of(d)
            db[pos] = 1 if bit else 0
            if o[0] != 0 or o[1] != pos + 1 or bits_of(o[2:]) != db:
                return ("wrong_bits", "write_bit result %s" % o[:6])
            return None
        if op == 1104:
            pos, s = a[1], a[2:]
            if pos + 1 > 8 * len(s):
                return None if o[0] == 1 else ("short_not_err", "read_bit past end: %s" % o[:2])
            if o != [0, pos + 1, bits_of(s)[pos]]:
                return ("wrong_bits", "read_bit result %s" % o)
            return None
        if op == 1110:
            return self._oracle_buf_seq(a[1:], o)
        if op == 1111:
            ln, n = a[1], a[2]
            return self._oracle_bits_seq(ln, a[3:3 + n], a[3 + n:], o)
        return None

    def _oracle_bits_seq(self, ln, sl, ops, o):
        bits = bits_of(sl)
        pos = 0
        i = 0
        k = 1
        if o[0] != 0:
            return ("panic", "sequence aborted: %s" % o[:2])
        while i < len(ops):
            op = ops[i]
            i += 1
            expect_err = False
            want = None
            if op == 3:
                if pos < ln:
                    want = [bits[pos]]
                    pos += 1
                else:
                    expect_err = True
            elif op == 4:
                doff, dlen, m, fill = ops[i:i + 4]
                i += 4
                if ln - pos >= dlen:
                    d = bits_of([fill] * m)
                    d[doff:doff + dlen] = bits[pos:pos + dlen]
                    want = bytes_of(d)
                    pos += dlen
                else:
                    expect_err = True
            elif op == 8:
                pos = min(ops[i], ln)
                i += 1
            elif op == 9:
                want = [ln - pos]
            elif op == 10:
                ln = min(ops[i], 8 * len(sl))
                i += 1
            st = o[k]
            k += 1
            if st == 1:
                k += 1
                if not expect_err:
                    return ("spurious_err", "Bits op %d failed unexpectedly" % op)
            else:
                if expect_err:
                    return ("read_past_len", "Bits op %d succeeded beyond the declared length %d" % (op, ln))
                if want is not None:
                    got = o[k:k + len(want)]
                    k += len(want)
                    if got != want:
                        return ("wrong_bits", "Bits op %d returned %s, expected %s" % (op, got, want))
            _, l2, p2, _ = o[k:k + 4]
            k += 4
            if l2 != ln or p2 != pos:
                return ("cursor", "Bits (len,pos) = (%d,%d), expected (%d,%d)" % (l2, p2, ln, pos))
        return None

    def _oracle_buf_seq(self, ops, o):
        bits = []
        rpos = 0
        i = 0
        k = 1  # index into o (o[0] is the overall status)
        if o[0] != 0:
            return ("panic", "sequence aborted: %s" % o[:2])
        while i < len(ops):
            op = ops[i]
            i += 1
            expect_err = False
            read_out = None
            if op == 1:
                bits.append(1 if ops[i] else 0)
                i += 1
            elif op == 2:
                soff, slen, n = ops[i], ops[i + 1], ops[i + 2]
                src = ops[i + 3:i + 3 + n]
                i += 3 + n
                if soff + slen <= 8 * n:
                    bits += bits_of(src)[soff:soff + slen]
                else:
                    expect_err = True
            elif op == 7:
                soff, n = ops[i], ops[i + 1]
                src = ops[i + 2:i + 2 + n]
                i += 2 + n
                bits += bits_of(src)[soff:]
            elif op == 3:
                if rpos < len(bits):
                    read_out = [bits[rpos]]
                    rpos += 1
                else:
                    expect_err = True
            elif op == 4:
                doff, dlen, n, fill = ops[i:i + 4]
                i += 4
                # the buffer's storage is whole bytes: reads are bounded by the byte length (padding is zero)
                stored = bits + [0] * ((-len(bits)) % 8)
                if rpos + dlen <= len(stored):
                    d = bits_of([fill] * n)
                    d[doff:doff + dlen] = stored[rpos:rpos + dlen]
                    read_out = bytes_of(d)
                    rpos += dlen
                else:
                    expect_err = True
            elif op == 5:
                pos, bit = ops[i], ops[i + 1]
                i += 2
                bits[pos] = 1 if bit else 0
            # parse the op's record
            st = o[k]
            k += 1
            if st == 1:
                k += 1
                if not expect_err:
                    return ("spurious_err", "op %d failed unexpectedly" % op)
            else:
                if expect_err:
                    return ("short_not_err", "op %d should have failed" % op)
                if read_out is not None:
                    got = o[k:k + len(read_out)]
                    k += len(read_out)
                    if got != read_out:
                        return ("wrong_bits", "read returned %s, expected %s" % (got, read_out))
            blen, wpos, rp, last = o[k:k + 4]
            k += 4
            if wpos != len(bits):
                return ("cursor", "bit_len %d, expected %d" % (wpos, len(bits)))
            if blen != (wpos + 7) // 8:
                return ("buffer_len", "buffer is %d bytes long at bit_len %d after op %d%s" %
                        (blen, wpos, op, " (failed write)" if st == 1 else ""))
            if wpos % 8 and last & ((1 << (8 - wpos % 8)) - 1):
                return ("padding", "padding bits not zero: last byte %d at bit_len %d" % (last, wpos))
        if o[k:] != bytes_of(bits):
            return ("wrong_bits", "final buffer %s, expected %s" % (o[k:k + 8], bytes_of(bits)[:8]))
        return None

    def nontrivial(self, line, out):
        a = line.split()
        if a[0] in ("1101", "1102"):
            return out.startswith("0") and a[3] != "0"
        if a[0] in ("1110", "1111"):
            return out.startswith("0") and len(a) > 6
        return out.startswith("0")


SPEC = C11()
