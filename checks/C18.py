"""C18 -- the bytes of the protobuf writer decode under the generated .proto (protoc + Coq reference decoder)."""
import os
import re
import shutil
import subprocess
import tempfile

import vlib
from vlib import Spec
from C17 import (ZOO, ZOO_NAMES, NONE, enc_val, dec_val, normalise, zoo_cases, parse_4050, has, read_corpus,
                 null_lists, drop_null_lists)

PROTOC = shutil.which("protoc") or "/usr/bin/protoc"
SCALARS = {"bool": 1, "uint32": 2, "uint64": 3, "sint32": 4, "sint64": 5, "string": 6, "bytes": 7}
# SET with explicit tags: declared component j is visited (and carried in the value) at index DECL[j]
DECL_ORDER = {14: [1, 0]}
MSG_IDS = [t for t in ZOO if t not in (2, 19, 20)]
IMP_IDS = [3, 4, 5, 7, 8, 9]          # messages of ZooImp (two-module zoo), same names and shapes as the zoo's


# --------------------------------------------------------------------------
# a parser for the proto3 subset that generate/protobuf.rs emits
# --------------------------------------------------------------------------
def parse_proto(text, imports=None):
    """-> (package, defs) with defs[name] = ('message', [field...]) | ('enum', [(name, value)...]);
    field = ('field', name, number, type, repeated) | ('oneof', name, [(name, number, type)...]).
    Raises ValueError on anything outside the subset."""
    lines = [l.strip() for l in text.split("\n")]
    lines = [l for l in lines if l]
    if not lines or lines[0] != "syntax = 'proto3';":
        raise ValueError("missing syntax line")
    m = re.fullmatch(r"package ([a-z0-9_.]+);", lines[1])
    if not m:
        raise ValueError("missing package line")
    package = m.group(1)
    defs = {}
    i = 2
    while i < len(lines) and re.fullmatch(r"import '([a-z0-9_]+\.proto)';", lines[i]):
        if imports is not None:
            imports.append(lines[i][8:-2])
        i += 1
    while i < len(lines):
        m = re.fullmatch(r"(message|enum) ([A-Za-z0-9_]+) \{", lines[i])
        if not m:
            raise ValueError("unexpected line: " + lines[i])
        kind, name = m.groups()
        i += 1
        items = []
        while lines[i] != "}":
            l = lines[i]
            if kind == "enum":
                mm = re.fullmatch(r"([A-Z0-9_]+) = (\d+);", l)
                if not mm:
                    raise ValueError("bad enum line: " + l)
                items.append((mm.group(1), int(mm.group(2))))
                i += 1
                continue
            mm = re.fullmatch(r"oneof ([a-z0-9_]+) \{", l)
            if mm:
                alts = []
                i += 1
                while lines[i] not in ("};", "}"):
                    ma = re.fullmatch(r"((?:repeated )*)([A-Za-z0-9_.]+) ([A-Za-z0-9_]+) = (\d+);", lines[i])
                    if not ma:
                        raise ValueError("bad oneof line: " + lines[i])
                    alts.append((ma.group(3), int(ma.group(4)), ma.group(2), ma.group(1).count("repeated")))
                    i += 1
                items.append(("oneof", mm.group(1), alts))
                i += 1
                continue
            mm = re.fullmatch(r"((?:repeated )*)([A-Za-z0-9_.]+) ([A-Za-z0-9_]+) = (\d+);", l)
            if not mm:
                raise ValueError("bad field line: " + l)
            items.append(("field", mm.group(3), int(mm.group(4)), mm.group(2), mm.group(1).count("repeated")))
            i += 1
        i += 1
        defs[name] = (kind, items)
    return package, defs


def merge_imported(base_pkg, base_defs, imp_defs):
    """definitions of the importing file with every type name resolved as protoc would (package-qualified names
    of the imported file -> that definition; bare names -> the file's own); raises ValueError on a name that
    resolves to nothing"""
    def res(ty):
        if ty in SCALARS or ty in imp_defs:
            return ty
        if ty.startswith(base_pkg + ".") and ty[len(base_pkg) + 1:] in base_defs:
            return ty[len(base_pkg) + 1:]
        raise ValueError("type name %s resolves to nothing" % ty)
    out = dict(base_defs)
    for name, (kind, items) in imp_defs.items():
        if name in base_defs:
            raise ValueError("definition %s in both files" % name)
        if kind == "message":
            items = [("field", it[1], it[2], res(it[3]), it[4]) if it[0] == "field"
                     else ("oneof", it[1], [(a, n, res(ty), r) for (a, n, ty, r) in it[2]]) for it in items]
        out[name] = (kind, items)
    return out


def dump_type(defs, ty, rep):
    if rep:
        return [4] + dump_type(defs, ty, rep - 1)
    if ty in SCALARS:
        return [1, SCALARS[ty]]
    kind, items = defs[ty]
    if kind == "enum":
        if [v for _, v in items] != list(range(len(items))):
            raise ValueError("enum values not 0..n-1")
        return [2, len(items)]
    out = [3, len(items)]
    for pos, it in enumerate(items):
        if it[0] == "field":
            out += [it[2]] + dump_type(defs, it[3], it[4])
        else:
            out += [pos + 1, 5, len(it[2])]
            for (_, num, aty, arep) in it[2]:
                out += [num] + dump_type(defs, aty, arep)
    return out


# --------------------------------------------------------------------------
# protoc text format
# --------------------------------------------------------------------------
def unescape(s):
    out = bytearray()
    i = 0
    while i < len(s):
        c = s[i]
        if c != "\\":
            out += c.encode("utf-8")
            i += 1
            continue
        n = s[i + 1]
        if n in "01234567":
            j = i + 1
            while j < len(s) and j < i + 4 and s[j] in "01234567":
                j += 1
            out.append(int(s[i + 1:j], 8))
            i = j
        else:
            out.append({"n": 10, "r": 13, "t": 9, "\\": 92, '"': 34, "'": 39}[n])
            i += 2
    return tuple(out)


def parse_text(lines, pos=0):
    """protoc --decode output -> list of (name, value); value = scalar token | tuple bytes | nested list"""
    out = []
    while pos < len(lines):
        l = lines[pos].strip()
        if l == "}":
            return out, pos + 1
        m = re.fullmatch(r"([A-Za-z0-9_]+) \{", l)
        if m:
            sub, pos = parse_text(lines, pos + 1)
            out.append((m.group(1), sub))
            continue
        m = re.fullmatch(r'([A-Za-z0-9_]+): "(.*)"', l)
        if m:
            out.append((m.group(1), unescape(m.group(2))))
        else:
            m = re.fullmatch(r"([A-Za-z0-9_]+): (\S+)", l)
            if not m:
                raise ValueError("text format line: " + l)
            out.append((m.group(1), m.group(2)))
        pos += 1
    return out, pos


def expected(defs, t, v, msgname, tid=None):
    """what `protoc --decode` must print for value v of message type t (proto3: singular default-valued
    scalars outside a oneof are not printed)"""
    kind, items = defs[msgname]
    out = []

    def scalar(ft, fv, fty, in_oneof):
        k = ft[0]
        if k == "bool":
            return None if (not fv and not in_oneof) else ("true" if fv else "false")
        if k == "int":
            return None if (fv == 0 and not in_oneof) else str(fv)
        if k == "enum":
            if fv == 0 and not in_oneof:
                return None
            return defs[fty][1][fv][0]
        if k in ("str", "bytes"):
            return None if (len(fv) == 0 and not in_oneof) else tuple(fv)
        if k == "bits":
            return tuple(fv[0][:(fv[1] + 7) // 8]) + tuple(fv[1].to_bytes(8, "big"))
        if k == "null":
            return None if not in_oneof else ()
        if k in ("seq", "choice"):
            return expected(defs, ft, fv, fty)
        raise ValueError(k)

    if t[0] == "seq":
        order = DECL_ORDER.get(tid, list(range(len(t[1]))))
        for j, it in enumerate(items):
            opt, ft = t[1][order[j]]
            fv = v[order[j]]
            if opt:
                if fv == NONE:
                    continue
                fv = fv[1]
            name, fty = it[1], it[3]
            if ft[0] == "list":
                for e in fv:
                    x = scalar(ft[1], e, fty, True)
                    out.append((name, x))
            else:
                x = scalar(ft, fv, fty, False)
                if x is not None:
                    out.append((name, x))
    elif t[0] == "choice":
        alts = items[0][2]
        name, _, fty, _ = alts[v[0]]
        out.append((name, scalar(t[1][v[0]], v[1], fty, True)))
    return out


def canon_text(x):
    """drop unknown fields (numeric names) and normalise"""
    out = []
    for name, val in x:
        if name.isdigit():
            continue
        out.append((name, canon_text(val) if isinstance(val, list) else val))
    return out


def has_unknown(x):
    return any(name.isdigit() or (isinstance(val, list) and has_unknown(val)) for name, val in x)


# expected value in the layout of dump_pbmsg (Coq reference decoder): one entry per schema field
def expected_dump(t, v, tid=None, top=True):
    def fld(ft, fv):
        k = ft[0]
        if k == "bool":
            return [1, 1 if fv else 0]
        if k in ("int", "enum"):
            return [1, fv]
        if k in ("str", "bytes"):
            return [2, len(fv)] + list(fv)
        if k == "bits":
            p = list(fv[0][:(fv[1] + 7) // 8]) + list(fv[1].to_bytes(8, "big"))
            return [2, len(p)] + p
        if k == "null":
            return [2, 0]
        if k == "seq" or k == "choice":
            return [3, 1] + msg(ft, fv)
        if k == "list":
            out = [4, len(fv)]
            for e in fv:
                out += fld(ft[1], e)
            return out
        raise ValueError(k)

    def absent(ft):
        k = ft[0]
        if k in ("bool", "int", "enum"):
            return [1, 0]
        if k in ("str", "bytes", "bits", "null"):
            return [2, 0]
        if k in ("seq", "choice"):
            return [3, 0]
        return [4, 0]

    def msg(mt, mv, mtid=None):
        if mt[0] == "choice":
            return [1, 5, 1, mv[0] + 1] + fld(mt[1][mv[0]], mv[1])
        order = DECL_ORDER.get(mtid, list(range(len(mt[1]))))
        out = [len(mt[1])]
        for j in range(len(mt[1])):
            opt, ft = mt[1][order[j]]
            fv = mv[order[j]]
            if opt:
                out += absent(ft) if fv == NONE else fld(ft, fv[1])
            else:
                out += fld(ft, fv)
        return out
    return [0, 3, 1] + msg(t, v, tid)


def choice_null(t, v):
    if t[0] == "choice":
        return t[1][v[0]][0] == "null" or choice_null(t[1][v[0]], v[1])
    if t[0] == "seq":
        return any(choice_null(ft, fv[1] if opt else fv) for (opt, ft), fv in zip(t[1], v) if not (opt and fv == NONE))
    if t[0] == "list":
        return any(choice_null(t[1], e) for e in v)
    return False


class C18(Spec):
    prop = "C18"
    coq_targets = ["Props/C18.vo"]
    prop_module = "Props.C18"
    theorems = ["C18_numbers_match", "C18_decodes_under_schema", "C18_refuted_list_of_null", "C18_extensible_int_fixed",
                "C18_decodes_under_schema_partial", "C18_schema_valid_partial",
                "C18_null_field_fixed", "C18_refuted_set_order", "C18_refuted_nested_list_proto",
                "C18_refuted_choice_list_proto", "C18_refuted_choice_null"]
    builds = [("protobuf", "dev"), ("protobuf", "release")]
    timeout_per_chunk = 300
    level_text = ("Theorems about schema_of (the abstract content of the generated .proto, numbered as generate/protobuf.rs does) "
                  "and pb_decode (a reference proto3 wire decoder written from the encoding specification): the writer model's bytes "
                  "decode under the schema to the field values, for the proven class of messages; refutation witnesses for NULL "
                  "components, SETs with explicit tags, lists of lists and list alternatives. Tie: the real generator's .proto text "
                  "is parsed and compared with schema_of, validated by protoc, and the real writer's bytes are decoded by protoc "
                  "--decode and by the extracted Coq decoder and compared with the value.")
    rule = ("all 32 message types of the zoo x value styles {default-ish, random with boundary integers, big}, every CHOICE "
            "alternative, every integer boundary; each case: real bytes decoded by protoc under the real .proto, Coq pb_decode "
            "under schema_of, both compared with the value. non-trivial = at least one byte written; distinct = distinct case line")
    assumptions_text = ["protoc 3.21.12 as the independent decoder (absent -> Coq reference decoder only)", "64-bit usize"]
    _state = None

    # ---- lazily obtained real .proto ----
    def state(self):
        if self._state is not None:
            return self._state
        st = {"dir": tempfile.mkdtemp(prefix="c18_"), "protoc": os.path.exists(PROTOC), "cache": {}, "notes": []}
        exe = os.path.join(vlib.CACHE, "target-protobuf", "debug", "a1h")
        for op, fname in (("4100", "zoo.proto"), ("4102", "zoo_bad.proto")):
            out = subprocess.run([exe], input=(op + "\n").encode(), stdout=subprocess.PIPE).stdout.decode().split()
            txt = "".join(chr(int(c)) for c in out[1:]) if out[:1] == ["0"] else ""
            st[fname] = txt
            with open(os.path.join(st["dir"], fname), "w") as f:
                f.write(txt)
        try:
            st["package"], st["defs"] = parse_proto(st["zoo.proto"])
            st["parse_error"] = None
        except (ValueError, IndexError) as e:
            st["package"], st["defs"], st["parse_error"] = "zoo", {}, str(e)
        # the two-module zoo (op 4103): every generated file, the importing one resolved against the imported one
        out = subprocess.run([exe], input=b"4103\n", stdout=subprocess.PIPE).stdout.decode().split()
        st["multi"], st["multi_error"], st["multi_defs"], st["multi_pkg"] = [], None, {}, None
        try:
            if out[:1] != ["0"]:
                raise ValueError("op 4103 answers " + " ".join(out[:3]))
            v = list(map(int, out))
            i = 2
            for _ in range(v[1]):
                parts = []
                for _ in range(2):
                    parts.append("".join(map(chr, v[i + 1:i + 1 + v[i]])))
                    i += 1 + v[i]
                st["multi"].append(tuple(parts))
                with open(os.path.join(st["dir"], parts[0]), "w") as f:
                    f.write(parts[1])
            texts = dict(st["multi"])
            imps = []
            bpkg, bdefs = parse_proto(texts["zoo_base.proto"])
            st["multi_pkg"], idefs = parse_proto(texts["zoo_imp.proto"], imps)
            if imps != ["zoo_base.proto"]:
                raise ValueError("zoo_imp.proto imports %s" % imps)
            st["multi_defs"] = merge_imported(bpkg, bdefs, idefs)
        except (ValueError, IndexError, KeyError) as e:
            st["multi_error"] = "%s: %s" % (type(e).__name__, e)
        if st["protoc"]:
            for fname in ["zoo.proto", "zoo_bad.proto"] + [n for n, _ in st["multi"]]:
                p = subprocess.run([PROTOC, "--proto_path=" + st["dir"], "-o", os.devnull, fname], cwd=st["dir"],
                                   stdout=subprocess.PIPE, stderr=subprocess.STDOUT)
                st[fname + ".rc"] = p.returncode
                st[fname + ".log"] = p.stdout.decode()[:600]
        self._state = st
        return st

    def protoc_decode(self, tid, bs, fname="zoo.proto", package=None):
        st = self.state()
        key = (tid, tuple(bs), fname)
        if key in st["cache"]:
            return st["cache"][key]
        p = subprocess.run([PROTOC, "--proto_path=" + st["dir"], "--decode=%s.%s" % (package or st["package"], ZOO_NAMES[tid]), fname],
                           cwd=st["dir"], input=bytes(bs), stdout=subprocess.PIPE, stderr=subprocess.PIPE)
        if p.returncode != 0:
            res = ("fail", p.stderr.decode()[:200])
        else:
            try:
                res = ("ok", parse_text(p.stdout.decode("utf-8", "surrogateescape").split("\n")[:-1])[0])
            except (ValueError, KeyError) as e:
                res = ("fail", "unparsable text output: %s" % e)
        st["cache"][key] = res
        return res

    def corpus(self):
        return read_corpus(self.prop)

    def applies(self, line, build):
        # 4100 / 4102 (the generated .proto text) are evaluated in extra_checks; the model has no counterpart
        return line.split()[0] not in ("4100", "4102", "4103")

    def gen(self, rng, tier):
        L = []
        for tid, v in zoo_cases(rng, tier, ids=MSG_IDS, quick_n=48):   # one protoc process per distinct case
            L.append("4050 %d 0 %s" % (tid, " ".join(map(str, enc_val(ZOO[tid], v, [])))))
        return L

    def ref_line(self, line):
        a = line.split()
        if a[0] != "4050":
            return None
        return "4110 %s %s" % (a[1], " ".join(a[3:]))

    def oracle(self, line, out, build, ref=None):
        a = list(map(int, line.split()))
        o = list(map(int, out.split()))
        if a[0] != 4050:
            return None
        tid = a[1]
        t = ZOO[tid]
        v = normalise(t, dec_val(t, a, 3)[0])
        p = parse_4050(o)
        if p["w"][0] != "ok":
            return ("write_failed", out[:80])
        bs = p["w"][1]
        st = self.state()
        # family of the value, for naming only
        if tid in DECL_ORDER:
            fam = "set_fields_sorted_by_tag"
        elif choice_null(t, v):
            fam = "choice_null_alternative_empty"
        else:
            fam = "decode_mismatch"
        # a SEQUENCE OF NULL holding n > 0 elements: the schema promises n `bytes` entries, none is written
        lost = null_lists(t, v) > 0 and fam == "decode_mismatch"
        v_lost = drop_null_lists(t, v) if lost else None
        # (i) Coq reference decoder under schema_of (on the model's bytes, which the tie shows equal)
        if ref is not None:
            r = list(map(int, ref.split()))
            want = expected_dump(t, v, tid)
            if r != want:
                if lost and r == expected_dump(t, v_lost, tid):
                    return ("list_of_null_elements_missing",
                            "Coq pb_decode under schema_of sees no element of a SEQUENCE OF NULL holding %d: %s, value says %s"
                            % (null_lists(t, v), str(r)[:100], str(want)[:100]))
                return (fam, "Coq pb_decode under schema_of gives %s, value says %s" % (str(r)[:100], str(want)[:100]))
        # (ii) protoc under the real .proto
        if st["protoc"] and st["parse_error"] is None and st.get("zoo.proto.rc") == 0:
            d = self.protoc_decode(tid, bs)
            if d[0] != "ok":
                return (fam if fam != "decode_mismatch" else "protoc_rejects_bytes", "protoc --decode failed: %s" % d[1])
            got = canon_text(d[1])
            want = expected(st["defs"], t, v, ZOO_NAMES[tid], tid)
            if lost and not has_unknown(d[1]) and got != want and got == expected(st["defs"], t, v_lost, ZOO_NAMES[tid], tid):
                return ("list_of_null_elements_missing",
                        "protoc sees no element of a SEQUENCE OF NULL holding %d: %s, value says %s"
                        % (null_lists(t, v), str(got)[:110], str(want)[:110]))
            if got != want or has_unknown(d[1]):
                return (fam, "protoc decodes %s%s, value says %s" % (str(got)[:110], " (+unknown fields)" if has_unknown(d[1]) else "", str(want)[:110]))
        # (iii) the same bytes under the importing module's file of the two-module zoo (same message shape, component
        #       types imported from another package)
        if (st["protoc"] and tid in IMP_IDS and st["multi_error"] is None
                and all(st.get(n + ".rc") == 0 for n, _ in st["multi"])):
            d = self.protoc_decode(tid, bs, "zoo_imp.proto", st["multi_pkg"])
            if d[0] != "ok":
                return ("protoc_rejects_bytes_imported", "protoc --decode under zoo_imp.proto failed: %s" % d[1])
            got = canon_text(d[1])
            want = expected(st["multi_defs"], t, v, ZOO_NAMES[tid], tid)
            if got != want or has_unknown(d[1]):
                return ("decode_mismatch_imported", "under zoo_imp.proto protoc decodes %s, value says %s" % (str(got)[:110], str(want)[:110]))
        return None

    def nontrivial(self, line, out):
        o = out.split()
        return o[:1] == ["0"] and len(o) > 2 and o[1] != "0"

    def extra_checks(self, ctx):
        st = self.state()
        ctx.setdefault("coverage_extra", {})["protoc"] = "present (%s)" % PROTOC if st["protoc"] else "absent"
        of = ctx["oracle_fail"]
        build = list(self.builds[0])
        if st["parse_error"] is not None:
            of.append({"case": "4100", "build": build, "impl": st["zoo.proto"][:300], "class": "proto_text_outside_subset",
                       "what": "generated .proto is outside the transcribed proto3 subset: " + st["parse_error"]})
        if st["protoc"]:
            if st.get("zoo.proto.rc") != 0:
                of.append({"case": "4100", "build": build, "impl": st["zoo.proto"][:300], "class": "proto_file_rejected",
                           "what": "protoc rejects the generated zoo.proto: " + st.get("zoo.proto.log", "")})
            if st.get("zoo_bad.proto.rc") != 0:
                log = st.get("zoo_bad.proto.log", "")
                if "Missing field number" in log or "repeated repeated" in st["zoo_bad.proto"]:
                    of.append({"case": "4102", "build": build, "impl": st["zoo_bad.proto"][:300],
                               "class": "proto_file_rejected_nested_list",
                               "what": "SEQUENCE OF SEQUENCE OF is emitted as 'repeated repeated T': " + log[:200]})
                if "Fields in oneofs must not have labels" in log:
                    of.append({"case": "4102", "build": build, "impl": st["zoo_bad.proto"][:300],
                               "class": "proto_file_rejected_repeated_in_oneof",
                               "what": "a SEQUENCE OF alternative of a CHOICE is emitted as a repeated oneof member: " + log[:200]})
        if st["multi_error"] is not None:
            of.append({"case": "4103", "build": build, "impl": "\n".join(c for _, c in st["multi"])[:600],
                       "class": "proto_imported_type_unresolved",
                       "what": "two-module specification: the generated files do not resolve: " + st["multi_error"]})
        if st["protoc"]:
            for n, c in st["multi"]:
                if st.get(n + ".rc") != 0:
                    of.append({"case": "4103", "build": build, "impl": c[:600], "class": "proto_file_rejected_multi_module",
                               "what": "protoc rejects the generated %s: %s" % (n, st.get(n + ".log", ""))})
        if st["multi_error"] is None:
            mo = vlib.run_model(["4101 %d" % tid for tid in IMP_IDS], mode="dev")
            bad = []
            for tid, m in zip(IMP_IDS, mo):
                try:
                    want = [0] + dump_type(st["multi_defs"], ZOO_NAMES[tid], 0)
                except (ValueError, KeyError) as e:
                    want = ["unparsable: %s" % e]
                if list(map(str, want)) != m.split():
                    bad.append({"case": "4101 %d (zoo_imp.proto)" % tid, "build": build, "impl": " ".join(map(str, want))[:400], "model": m[:400]})
            ctx["disagreements"].extend(bad)
            ctx["coverage_extra"]["schema_of_vs_generated_proto_two_modules"] = "%d message types compared, %d differ" % (len(IMP_IDS), len(bad))
        # schema_of (model) against the structure parsed from the real text
        if st["parse_error"] is None:
            lines = ["4101 %d" % tid for tid in MSG_IDS]
            mo = vlib.run_model(lines, mode="dev")
            bad = []
            for tid, m in zip(MSG_IDS, mo):
                try:
                    want = [0] + dump_type(st["defs"], ZOO_NAMES[tid], 0)
                except (ValueError, KeyError) as e:
                    want = ["unparsable: %s" % e]
                if list(map(str, want)) != m.split():
                    bad.append({"case": "4101 %d" % tid, "build": build, "impl": " ".join(map(str, want))[:400], "model": m[:400]})
            ctx["disagreements"].extend(bad)
            ctx["coverage_extra"]["schema_of_vs_generated_proto"] = "%d message types compared, %d differ" % (len(MSG_IDS), len(bad))
        shutil.rmtree(st["dir"], ignore_errors=True)


SPEC = C18()
