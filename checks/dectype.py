"""Decoder of the integer encoding of L2 types (mirror of uperlib.enc_ty) and a (type, value) walker."""
import uperlib as U


def dec_ty(o, i):
    tag = o[i]
    if tag == 0:
        return ("bool",), i + 1
    if tag == 1:
        return ("null",), i + 1
    if tag == 2:
        hl, lo, hh, hi, ext = o[i + 2:i + 7]
        return ("int", o[i + 1], (bool(hl), lo, bool(hh), hi, bool(ext))), i + 7
    if tag == 3:
        lo, hi, ext = o[i + 2:i + 5]
        return ("str", o[i + 1], (lo, hi, bool(ext))), i + 5
    if tag in (4, 5):
        lo, hi, ext = o[i + 1:i + 4]
        return (("oct", "bits")[tag - 4], (lo, hi, bool(ext))), i + 4
    if tag == 6:
        lo, hi, ext = o[i + 1:i + 4]
        e, j = dec_ty(o, i + 4)
        return ("list", e, (lo, hi, bool(ext))), j
    if tag == 7:
        so, fc, ea, n = o[i + 1:i + 5]
        j = i + 5
        fs = []
        for _ in range(n):
            fk = o[j]
            j += 1
            d = None
            if fk == 2:
                d, j = U.dec_val(o, j)
            t, j = dec_ty(o, j)
            fs.append((("req", "opt", "def")[fk], d, t))
        return ("seq", fs, (so, fc, ea)), j
    if tag == 8:
        std, ext, n = o[i + 1:i + 4]
        j = i + 4
        alts = []
        for _ in range(n):
            t, j = dec_ty(o, j)
            alts.append(t)
        return ("choice", alts, (std, bool(ext))), j
    return ("enum", o[i + 1], (o[i + 2], bool(o[i + 3]))), i + 4


def find(t, v, pred):
    """is there a (sub-type, sub-value) satisfying pred(type, value)?  value may be None (absent)"""
    try:
        if pred(t, v):
            return True
    except Exception:
        pass
    if v is None:
        return False
    k = t[0]
    if k == "list":
        return any(find(t[1], x, pred) for x in v[1][:64])
    if k == "seq":
        return any(find(ft, x, pred) for (_, _, ft), x in zip(t[1], v[1]))
    if k == "choice":
        return v[1] < len(t[1]) and find(t[1][v[1]], v[2], pred)
    return False


def walk(t, v, f, path=()):
    """call f(type, value, path) on every (sub-type, sub-value)"""
    f(t, v, path)
    if v is None:
        return
    k = t[0]
    if k == "list":
        for i, x in enumerate(v[1][:64]):
            walk(t[1], x, f, path + (("elem", i),))
    elif k == "seq":
        for i, ((fk, d, ft), x) in enumerate(zip(t[1], v[1])):
            walk(ft, x, f, path + (("field", i, fk, t[2]),))
    elif k == "choice":
        if v[1] < len(t[1]):
            walk(t[1][v[1]], v[2], f, path + (("alt", v[1], t[2]),))
