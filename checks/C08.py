"""C08 -- generated Rust code carries the whole model (codegen is invertible).

Ops (harness/a1h/src/codegen.rs; implementation-only, see `level_text`):
  3401 <code point>...    ASN.1 module text(s) (several modules separated by code 0) -> real front end -> to_rust (R1)
                          -> RustCodeGenerator text -> per `#[asn(..)]` item the macro's own parse_asn_definition
                          -> to_rust_keep_names (R2) -> expand(); answer = canonical integer dumps of R1 and R2 per
                          definition plus every associated const of the expansion (see codegen.rs for the layout).

Generated cases carry their own abstract description as JSON in a leading ASN.1 comment (`-- D:{...}`), so a replayed
line can be judged without any state.  The ORACLE never looks at a model:
  (a) dump(R2) == dump(R1) per definition, modulo (i) the macro's derived default tag of an untagged CHOICE (named in
      the property) and (ii) pure renamings the generator applies on purpose (keyword escape `type` -> `type_`,
      ENUMERATED default literal `red` -> `Red`);
  (b) the constants of the expansion equal the constraints of the module, computed here from the abstract description
      by X.680 reading: MIN/MAX = declared bounds (absent for MIN/MAX keywords or no constraint), EXTENSIBLE = marker
      present, STD_VARIANT_COUNT = root alternatives/items, VARIANT_COUNT = all, FIELD_COUNT = components,
      STD_OPTIONAL_FIELDS = OPTIONAL/DEFAULT root components, EXTENDED_AFTER_FIELD = index of the last root component,
      DEFAULT_VALUE = the literal, TAG = explicit tag | automatic context tag | universal tag of the type,
      read_seq/write_seq order of a SEQUENCE = textual order.
"""
import json
import os
import re

from vlib import Spec

# --------------------------------------------------------------------------------------------- line <-> text

DESC_PREFIX = "-- D:"
IMPL_ONLY_SUFFIX = " -3400"     # harness/a1h/src/codegen.rs: sentinel closing the answer of an op without Coq counterpart


def line_of(text, op=3401):
    return "%d %s" % (op, " ".join(str(ord(c)) for c in text))


def text_of_line(line):
    return "".join(chr(int(x)) for x in line.split()[1:])


def desc_of_text(text):
    if text.startswith(DESC_PREFIX):
        first = text.split("\n", 1)[0]
        try:
            return json.loads(first[len(DESC_PREFIX):])
        except ValueError:
            return None
    return None


# --------------------------------------------------------------------------------------------- answer decoding

class Dec:
    def __init__(self, ints, pos=0):
        self.a = ints
        self.p = pos

    def i(self):
        v = self.a[self.p]
        self.p += 1
        return v

    def s(self):
        n = self.i()
        v = "".join(chr(c) for c in self.a[self.p:self.p + n])
        self.p += n
        return v

    def tag(self):
        if self.i() == 0:
            return None
        c = self.i()
        return (c, self.i())

    def size(self):
        k = self.i()
        if k == 0:
            return ("any",)
        if k == 1:
            return ("fix", self.i(), self.i())
        return ("rng", self.i(), self.i(), self.i())

    def lit(self):
        k = self.i()
        if k == 0:
            return ("bool", self.i())
        if k == 1:
            return ("str", self.s())
        if k == 2:
            return ("int", self.i())
        if k == 3:
            n = self.i()
            v = tuple(self.a[self.p:self.p + n])
            self.p += n
            return ("oct", v)
        return ("enum", self.s(), self.s())

    def ty(self):
        k = self.i()
        if k == 0:
            return ("bool",)
        if k == 1:
            kind = self.i()
            hmin, vmin, hmax, vmax, ext = self.i(), self.i(), self.i(), self.i(), self.i()
            return ("int", kind, vmin if hmin else None, vmax if hmax else None, ext)
        if k == 2:
            return ("str", self.size(), self.i())
        if k == 3:
            return ("oct", self.size())
        if k == 4:
            return ("bits", self.size())
        if k == 5:
            srt = self.i()
            sz = self.size()
            return ("vec", srt, sz, self.ty())
        if k == 6:
            return ("null",)
        if k == 7:
            return ("option", self.ty())
        if k == 8:
            t = self.ty()
            return ("default", t, self.lit())
        if k == 9:
            n = self.s()
            return ("complex", n, self.tag())
        raise ValueError("bad type code %d" % k)

    def consts(self):
        return tuple((self.s(), self.s()) for _ in range(self.i()))

    def definition(self):
        name = self.s()
        k = self.i()
        if k == 0:
            srt, tag, ext = self.i(), self.tag(), self.i()
            fields = tuple((self.s(), self.ty(), self.tag(), self.consts()) for _ in range(self.i()))
            return {"name": name, "kind": "struct", "sort": srt, "tag": tag, "ext": ext, "fields": fields}
        if k == 1:
            tag, ext = self.tag(), self.i()
            return {"name": name, "kind": "enum", "tag": tag, "ext": ext, "variants": tuple(self.s() for _ in range(self.i()))}
        if k == 2:
            tag, ext = self.tag(), self.i()
            vs = tuple((self.s(), self.ty(), self.tag()) for _ in range(self.i()))
            return {"name": name, "kind": "choice", "tag": tag, "ext": ext, "variants": vs}
        if k == 3:
            t = self.ty()
            return {"name": name, "kind": "tuple", "type": t, "tag": self.tag(), "consts": self.consts()}
        raise ValueError("bad definition code %d" % k)


def parse_answer(out):
    """-> ("ok", [module: [definition: {"r1": dict, "r2": ("ok", [dict]) | ("err", stage) | ("panic", stage, class),
                                        "consts": ("ok", {(self, trait, name): (type, value)}) | ("err"..) | ("panic"..)}]])
       | ("err", stage, kind) | ("panic", stage, class) | ("other", ints)"""
    o = list(map(int, out.split()))
    if o and o[-1] == -3400:
        o.pop()
    if not o:
        return ("other", o)
    if o[0] == 1 and len(o) >= 2:
        return ("err", o[1], o[2] if len(o) > 2 else 0)
    if o[0] == 2 and len(o) >= 2:
        return ("panic", o[1], o[2] if len(o) > 2 else 0)
    if o[0] != 0:
        return ("other", o)
    d = Dec(o, 1)
    mods = []
    for _ in range(d.i()):
        defs = []
        for _ in range(d.i()):
            n = d.i()
            r1 = Dec(o[d.p:d.p + n]).definition()
            d.p += n
            st = d.i()
            if st == 0:
                n = d.i()
                sub = Dec(o[d.p:d.p + n])
                defs2, raws = [], []
                for _ in range(sub.i()):
                    p0 = sub.p
                    defs2.append(sub.definition())
                    raws.append(sub.a[p0:sub.p])
                r2 = ("ok", defs2, raws)
                d.p += n
            elif st == 1:
                r2 = ("err", d.i())
            else:
                r2 = ("panic", d.i(), d.i())
            st = d.i()
            if st == 0:
                cs = {}
                order = []
                for _ in range(d.i()):
                    tr, me, nm, ty, val = d.s(), d.s(), d.s(), d.s(), d.s()
                    cs[(me, tr, nm)] = (ty, val)
                    order.append((me, tr, nm))
                consts = ("ok", cs, order)
            elif st == 1:
                consts = ("err", d.i())
            else:
                consts = ("panic", d.i(), d.i())
            defs.append({"r1": r1, "r2": r2, "consts": consts})
        mods.append(defs)
    return ("ok", mods)


# --------------------------------------------------------------------------------------------- abstract modules -> text

CLS_TXT = {"U": "UNIVERSAL ", "A": "APPLICATION ", "C": "", "P": "PRIVATE "}
CLS_NUM = {"U": 0, "A": 1, "C": 2, "P": 3}
CLS_RUST = {0: "Universal", 1: "Application", 2: "ContextSpecific", 3: "Private"}
STR_TAG = {"UTF8String": 12, "NumericString": 18, "PrintableString": 19, "IA5String": 22, "VisibleString": 26}
STR_MOD = {"UTF8String": "utf8string", "NumericString": "numericstring", "PrintableString": "printablestring",
           "IA5String": "ia5string", "VisibleString": "visiblestring"}


def r_tag(tag):
    return "" if tag is None else "[%s%d] " % (CLS_TXT[tag[0]], tag[1])


def r_bound(b):
    if isinstance(b, dict):
        return b["ref"]
    return str(b)


def r_size(sz):
    if sz is None:
        return ""
    if sz[0] == "fix":
        return "(SIZE(%s%s))" % (r_bound(sz[1]), ",..." if sz[2] else "")
    return "(SIZE(%s..%s%s))" % (r_bound(sz[1]), r_bound(sz[2]), ",..." if sz[3] else "")


def r_named(named):
    if not named:
        return ""
    return " { " + ", ".join("%s(%d)" % (n, v) for n, v in named) + " }"


def r_lit(lit):
    if isinstance(lit, bool):
        return "TRUE" if lit else "FALSE"
    if isinstance(lit, int):
        return str(lit)
    if isinstance(lit, str):
        return '"%s"' % lit
    if isinstance(lit, dict):
        return lit["ref"]
    if lit[0] == "hex":
        return "'%s'H" % lit[1]
    if lit[0] == "enum":
        return lit[1]
    raise ValueError(lit)


def r_list(parts, ext):
    ps = list(parts)
    if ext is not None:
        ps.insert(ext, "...")
    return "{ " + ", ".join(ps) + " }"


def r_type(t):
    k = t[0]
    if k == "bool":
        return "BOOLEAN"
    if k == "null":
        return "NULL"
    if k == "int":
        _, lo, hi, ext, named = t
        s = "INTEGER" + r_named(named)
        if lo is not None or hi is not None:
            s += " (%s..%s%s)" % (r_bound(lo), r_bound(hi), ",..." if ext else "")
        return s
    if k == "str":
        return t[1] + (" " + r_size(t[2]) if t[2] else "")
    if k == "oct":
        return "OCTET STRING" + (" " + r_size(t[1]) if t[1] else "")
    if k == "bits":
        return "BIT STRING" + r_named(t[2]) + (" " + r_size(t[1]) if t[1] else "")
    if k in ("seqof", "setof"):
        kw = "SEQUENCE" if k == "seqof" else "SET"
        return "%s %sOF %s" % (kw, (r_size(t[1]) + " ") if t[1] else "", r_type(t[2]))
    if k in ("seq", "set"):
        parts = []
        for name, tag, ty, opt in t[1]:
            s = "%s %s%s" % (name, r_tag(tag), r_type(ty))
            if opt == "opt":
                s += " OPTIONAL"
            elif opt is not None:
                s += " DEFAULT " + r_lit(opt[1])
            parts.append(s)
        return ("SEQUENCE " if k == "seq" else "SET ") + r_list(parts, t[2])
    if k == "choice":
        return "CHOICE " + r_list(["%s %s%s" % (n, r_tag(tag), r_type(ty)) for n, tag, ty in t[1]], t[2])
    if k == "enum":
        return "ENUMERATED " + r_list([n if v is None else "%s(%d)" % (n, v) for n, v in t[1]], t[2])
    if k == "ref":
        return t[1]
    raise ValueError(t)


def render_module(m, with_desc=True):
    lines = []
    if with_desc:
        d = json.dumps(m, separators=(",", ":"))
        assert "--" not in d and "\n" not in d, d
        lines.append(DESC_PREFIX + d)
    lines.append("%s DEFINITIONS %s::= BEGIN" % (m["name"], "AUTOMATIC TAGS " if m["auto"] else ""))
    for name, vt, val in m.get("vals", []):
        lines.append("  %s %s ::= %s" % (name, vt, r_lit(val)))
    for name, tag, ty in m["defs"]:
        lines.append("  %s ::= %s%s" % (name, r_tag(tag), r_type(ty)))
    lines.append("END")
    return "\n".join(lines) + "\n"


# --------------------------------------------------------------------------------------------- expected constants

def cap(s):
    return s[0].upper() + s[1:]


def variant_of(name):
    """UpperCamel form of an ASN.1 identifier of the simple shape the generator uses here: [a-z][a-z0-9]*(-[a-z0-9]+)*"""
    return "".join(cap(p) for p in re.split("[-_]", name))


def crate_type_name(name):
    """rust.rs rust_variant_name / rust_struct_or_enum_name: the crate mangles the name of an extracted inline type
    (<Parent><Field>) once more, which lower-cases a letter that follows an upper-case one unless a lower-case letter
    comes next (T1 + AB1 -> T1Ab1).  Only used to FIND the definitions and constraint types of the expansion by name."""
    out = []
    next_upper, prev_upper = True, False
    for i, c in enumerate(name):
        if c in "-_":
            next_upper, prev_upper = True, False
        elif next_upper and not prev_upper:
            out.append(c.upper())
            next_upper, prev_upper = False, True
        else:
            nxt = name[i + 1] if i + 1 < len(name) else ""
            out.append(c.lower() if prev_upper and not nxt.islower() else c)
            prev_upper = c.isupper()
    return "".join(out)


def tag_text(tag):
    return "M::Tag::%s(%d)" % (CLS_RUST[tag[0]], tag[1])


class Expect:
    def __init__(self, m):
        self.m = m
        self.vals = {n: v for n, _t, v in m.get("vals", [])}
        self.defs = {n: (tag, ty) for n, tag, ty in m["defs"]}
        self.e = {}          # (self, trait module, const) -> (expected text | None (= must be absent), info)
        self.names = []      # expected Rust definition names, in any order
        for n, tag, ty in m["defs"]:
            self.definition(n, ty, None if tag is None else (CLS_NUM[tag[0]], tag[1]))

    def put(self, me, tr, name, val, info=""):
        self.e[(me, tr, name)] = (val, info)

    def value(self, b):
        if isinstance(b, dict):
            return self.vals.get(b["ref"])
        return b

    # X.680 8.4 / 8.6: the tag of an untagged type
    def universal(self, ty, depth=0):
        k = ty[0]
        if k == "ref":
            if ty[1] not in self.defs or depth > 20:
                return None
            tag, t2 = self.defs[ty[1]]
            if tag is not None:
                return (CLS_NUM[tag[0]], tag[1])
            return self.universal(t2, depth + 1)
        if k == "str":
            return (0, STR_TAG[ty[1]])
        n = {"bool": 1, "int": 2, "bits": 3, "oct": 4, "null": 5, "enum": 10, "seq": 16, "seqof": 16, "set": 17, "setof": 17}.get(k)
        return None if n is None else (0, n)

    def size(self, me, tr, sz, info):
        lo = hi = None
        ext = False
        if sz is not None:
            if sz[0] == "fix":
                lo = hi = self.value(sz[1])
                ext = sz[2]
            else:
                lo, hi, ext = self.value(sz[1]), self.value(sz[2]), sz[3]
                lo = None if lo == "MIN" else lo
                hi = None if hi == "MAX" else hi
        # a size is non-negative: lower bound 0, MIN and no lower bound are the same constraint (judged as equal)
        if lo is None:
            lo = 0
        self.put(me, tr, "MIN", "Some(%d)" % lo, info + " size")
        self.put(me, tr, "MAX", None if hi is None else "Some(%d)" % hi, info + " size")
        self.put(me, tr, "EXTENSIBLE", "true" if ext else "false", info + " size")

    def field(self, cname, ty, tag, opt, info):
        """constraint type ___asn1rs_<cname>Constraint of a component/alternative/tuple field.
        tag: (class, number) when X.680 determines it here, "type" = the type's own tag, None = not judged"""
        me = "___asn1rs_%sConstraint" % cname
        k = ty[0]
        own = self.universal(ty)
        want = own if tag == "type" else tag
        if want is not None:
            self.put(me, "D::common::Constraint", "TAG", tag_text(want), info + " " + k + (" default" if isinstance(opt, list) else ""))
        if isinstance(opt, list):
            self.put(me, "D::default::Constraint", "DEFAULT_VALUE", self.default_text(ty, opt[1]), info + " default")
            self.field(cname + "Value", ty, tag, None, info + " default-inner")
            return
        if k == "int":
            lo, hi, ext = self.value(ty[1]), self.value(ty[2]), ty[3]
            lo = None if lo == "MIN" else lo
            hi = None if hi == "MAX" else hi
            form = "%s..%s" % ("MIN" if ty[1] == "MIN" else "none" if ty[1] is None else "lit0" if lo == 0 else "neg" if lo < 0 else "pos",
                               "MAX" if ty[2] == "MAX" else "none" if ty[2] is None else "lit")
            tr = "D::numbers::Constraint"     # generic argument stripped when comparing
            self.put(me, tr, "MIN", None if lo is None else "Some(%d)" % lo, info + " int " + form)
            self.put(me, tr, "MAX", None if hi is None else "Some(%d)" % hi, info + " int " + form)
            self.put(me, tr, "EXTENSIBLE", "true" if ext else "false", info + " int " + form)
        elif k == "str":
            self.size(me, "D::%s::Constraint" % STR_MOD[ty[1]], ty[2], info)
        elif k == "oct":
            self.size(me, "D::octetstring::Constraint", ty[1], info)
        elif k == "bits":
            self.size(me, "D::bitstring::Constraint", ty[1], info)
        elif k in ("seqof", "setof"):
            self.size(me, "D::%s::Constraint" % ("sequenceof" if k == "seqof" else "setof"), ty[1], info)
            self.field(cname + "Values", ty[2], "type", None, info + " of-inner")
            self.inline(cname, ty[2], None)
        elif k in ("seq", "set", "choice", "enum"):
            pass   # complex::Constraint has no constants beyond TAG

    def inline(self, cname, ty, tag):
        # an anonymous structured type becomes a definition named <Parent><Field>
        pass

    def default_text(self, ty, lit):
        v = self.value(lit) if isinstance(lit, dict) else lit
        if isinstance(v, bool):
            return "&true" if v else "&false"
        if isinstance(v, int):
            return "&%d" % v
        if isinstance(v, str):
            return '&"%s"' % v
        if v[0] == "hex":
            bs = [v[1][i:i + 2] for i in range(0, len(v[1]), 2)]
            return "&[" + "".join("0x%s," % b.lower() for b in bs) + "]"
        if v[0] == "enum":
            return None if ty[0] != "ref" else "&%s::%s" % (variant_of(ty[1]) if "-" in ty[1] else ty[1], variant_of(v[1]))
        return None

    def comp_tags(self, comps):
        """tags X.680 gives the components of one list: explicit ones stay; AUTOMATIC TAGS numbers an all-untagged list;
        otherwise the type's own tag.  In a module without AUTOMATIC TAGS an all-untagged list is C16's subject: not judged."""
        explicit = [c[1] for c in comps]
        if any(t is not None for t in explicit):
            return [(CLS_NUM[t[0]], t[1]) if t is not None else "type" for t in explicit]
        if self.m["auto"]:
            return [(2, i) for i in range(len(comps))]
        return [None] * len(comps)

    def definition(self, name, ty, tag):
        name = variant_of(name) if "-" in name else name
        self.names.append(name)
        k = ty[0]
        if k in ("seq", "set"):
            comps, ext = ty[1], ty[2]
            tags = self.comp_tags([(c[0], c[1]) for c in comps])
            for (cn, ctag, cty, opt), t in zip(comps, tags):
                cname = name + "Field" + variant_of(cn)
                self.field(cname, cty, t, opt, "comp")
                self.nested(name + variant_of(cn), cty, None if ctag is None else (CLS_NUM[ctag[0]], ctag[1]))
            tr = "D::sequence::Constraint" if k == "seq" else "D::set::Constraint"
            nroot = len(comps) if ext is None else ext
            self.put(name, tr, "FIELD_COUNT", str(len(comps)), "struct")
            self.put(name, tr, "EXTENDED_AFTER_FIELD", "None" if ext is None else "Some(%d)" % (nroot - 1), "struct marker@%s" % ext)
            self.put(name, tr, "STD_OPTIONAL_FIELDS", str(sum(1 for c in comps[:nroot] if c[3] is not None)), "struct marker@%s" % ext)
            self.put(name, tr, "NAME", '"%s"' % name, "struct")
            self.put(name, "D::common::Constraint", "TAG", tag_text(tag if tag is not None else (0, 16 if k == "seq" else 17)), "own " + k)
            if k == "seq":
                self.put(name, tr, "fn read_seq", ",".join(name + "Field" + variant_of(c[0]) for c in comps), "order")
                self.put(name, tr, "fn write_seq", ",".join(name + "Field" + variant_of(c[0]) for c in comps), "order")
        elif k == "choice":
            alts, ext = ty[1], ty[2]
            tags = self.comp_tags([(a[0], a[1]) for a in alts])
            for (an, atag, aty), t in zip(alts, tags):
                cname = name + "Field" + variant_of(an)
                self.field(cname, aty, t, None, "alt")
                self.nested(name + variant_of(an), aty, None if atag is None else (CLS_NUM[atag[0]], atag[1]))
            tr = "D::choice::Constraint"
            self.put(name, tr, "VARIANT_COUNT", str(len(alts)), "choice")
            self.put(name, tr, "STD_VARIANT_COUNT", str(len(alts) if ext is None else ext), "choice marker@%s" % ext)
            self.put(name, tr, "EXTENSIBLE", "false" if ext is None else "true", "choice")
            self.put(name, tr, "NAME", '"%s"' % name, "choice")
            if tag is not None:
                self.put(name, "D::common::Constraint", "TAG", tag_text(tag), "own choice")
        elif k == "enum":
            items, ext = ty[1], ty[2]
            tr = "D::enumerated::Constraint"
            self.put(name, tr, "VARIANT_COUNT", str(len(items)), "enum")
            self.put(name, tr, "STD_VARIANT_COUNT", str(len(items) if ext is None else ext), "enum marker@%s" % ext)
            self.put(name, tr, "EXTENSIBLE", "false" if ext is None else "true", "enum")
            self.put(name, tr, "NAME", '"%s"' % name, "enum")
            self.put(name, "D::common::Constraint", "TAG", tag_text(tag if tag is not None else (0, 10)), "own enum")
        else:
            # a transparent (tuple struct) definition: the type sits in pseudo field 0
            self.field(name + "Field0", ty, tag if tag is not None else "type", None, "tuple")
            if k in ("seqof", "setof"):
                self.nested(name, ty[2], None, top=True)

    def nested(self, name, ty, tag, top=False):
        """definitions the crate extracts from anonymous structured types below a component of type `ty`"""
        k = ty[0]
        if k in ("seq", "set", "choice", "enum"):
            if not top:
                self.definition(crate_type_name(name), ty, tag)
        elif k in ("seqof", "setof"):
            self.nested(name, ty[2], None, top)


def strip_generic(tr):
    return re.sub(r"<.*>$", "", tr)


JUDGED = {"MIN", "MAX", "EXTENSIBLE", "VARIANT_COUNT", "STD_VARIANT_COUNT", "STD_OPTIONAL_FIELDS", "FIELD_COUNT",
          "EXTENDED_AFTER_FIELD", "TAG", "DEFAULT_VALUE", "NAME", "fn read_seq", "fn write_seq"}

I64_MAX = 2 ** 63 - 1
I64_MIN = -2 ** 63


def const_class(key, want, got, info):
    """narrow class name for one deviating constant"""
    me, tr, name = key
    if name in ("MIN", "MAX") and " int " in info:
        form = info.split(" int ")[1]
        if name == "MIN" and form.startswith("MIN..") and want is None and got in ("Some(0)", "Some(%d)" % I64_MIN):
            return "int_min_keyword_gets_lower_bound"          # INTEGER (MIN..n): MIN constant 0 (or i64::MIN when extensible, n <= 0)
        if name == "MAX" and form == "MIN..lit" and want is not None and want.startswith("Some(-") and got == "Some(%d)" % (2 ** 64 + int(want[5:-1])):
            return "int_min_keyword_negative_upper_wraps"      # INTEGER (MIN..-n): MAX constant is -n as u64
        if name == "MAX" and form.endswith("..MAX") and want is None and got == "Some(%d)" % I64_MAX:
            return "int_max_keyword_gets_i64_max"              # INTEGER (n..MAX): MAX constant i64::MAX
        if form in ("lit0..MAX", "lit0..lit") and got is None and want in ("Some(0)", "Some(%d)" % I64_MAX):
            return "int_zero_to_max_unconstrained"             # INTEGER (0..MAX) / (0..i64::MAX) has no bounds: encoded as unconstrained
        if name == "MAX" and form == "MIN..lit" and got is None and want == "Some(%d)" % I64_MAX:
            return "int_min_to_i64max_unconstrained"
        return "int_bound_const_differs"
    if name in ("MIN", "MAX") and info.endswith(" size"):
        if name == "MAX" and want is None and got == "Some(%d)" % I64_MAX:
            return "size_max_keyword_gets_i64_max"             # SIZE (n..MAX): MAX constant i64::MAX
        return "size_bound_const_differs"
    if name == "EXTENSIBLE":
        return "extensible_const_differs"
    if name in ("EXTENDED_AFTER_FIELD", "STD_OPTIONAL_FIELDS", "STD_VARIANT_COUNT") and "marker@0" in info:
        return "marker_before_first_component"
    if name == "TAG":
        if " default" in info and "default-inner" not in info and got == "M::Tag::Universal(16)":
            return "default_field_tag_const"
        if " setof" in info and got == "M::Tag::Universal(16)":
            return "set_of_field_tag_const"
        if info.startswith("own set") and got == "M::Tag::Universal(16)":
            return "set_own_tag"
        if info.startswith("tuple ref"):
            return "tagged_reference_definition_loses_tag"     # T ::= [n] Other: the TAG constant is Other's tag
        if info.startswith("tuple seqof") and got == "M::Tag::Universal(16)":
            return "tagged_sequence_of_definition_loses_tag"   # T ::= [n] SEQUENCE OF X: the tag is dropped (SET OF keeps it)
        return "tag_const_differs"
    if name == "DEFAULT_VALUE":
        return "default_value_const_differs"
    if name.startswith("fn "):
        return "sequence_field_order_differs"
    return "const_differs:" + name


# names the generator escapes (generate/rust.rs KEYWORDS): a field so named comes back with a trailing underscore
def same_modulo_escape(a, b):
    return a == b or (b == a + "_")


def norm_lit_names(t):
    """ENUMERATED default literals are printed with mangled names (red -> Red, a-b -> AB): the purposeful renaming is ONE
    application of rust_struct_or_enum_name / rust_variant_name.  Applied to both sides: the start model holds the ASN.1
    spelling, the re-parsed one the mangled spelling, which has to be a fixed point of the comparison only if nobody mangled
    it a second time -- so the re-parsed side is compared as it is (see diff_defs: r2 is NOT normalised)."""
    if t[0] == "default":
        lit = t[2]
        if lit[0] == "enum":
            lit = ("enum", crate_type_name(lit[1]), crate_type_name(lit[2]))
        return ("default", norm_lit_names(t[1]), lit)
    if t[0] == "option":
        return ("option", norm_lit_names(t[1]))
    if t[0] == "vec":
        return ("vec", t[1], t[2], norm_lit_names(t[3]))
    return t


def diff_defs(r1, r2):
    """list of (class, text) for the differences between the start model and the re-parsed one (modulo the allowed ones)"""
    out = []
    if r1["kind"] != r2["kind"]:
        return [("reparse_kind_differs", "%s became %s" % (r1["kind"], r2["kind"]))]
    if r1["name"] != r2["name"]:
        out.append(("reparse_name_differs", "%s became %s" % (r1["name"], r2["name"])))
    k = r1["kind"]
    t1, t2 = r1["tag"], r2["tag"]
    if k == "choice" and t1 is None:
        t2 = None        # the property: modulo the macro's derived default tag of an untagged CHOICE
    if t1 != t2:
        inner = r1["type"] if k == "tuple" else None
        while inner is not None and inner[0] in ("option", "default"):
            inner = inner[1]
        if k == "tuple" and t1 is None and inner[0] == "complex" and t2 == inner[2]:
            # T ::= Other comes back carrying Other's resolved tag as its own (same TAG constants either way)
            out.append(("transparent_reference_gains_resolved_tag", "%s: tag None became %s" % (r1["name"], t2)))
        else:
            out.append(("reparse_tag_differs", "%s: tag %s became %s" % (r1["name"], t1, t2)))
    if k != "tuple" and r1["ext"] != r2["ext"]:
        out.append(("reparse_extension_position_differs", "%s: extension_after %s became %s" % (r1["name"], r1["ext"], r2["ext"])))
    if k == "struct":
        if r1["sort"] != r2["sort"]:
            out.append(("reparse_set_vs_sequence", r1["name"]))
        if len(r1["fields"]) != len(r2["fields"]):
            out.append(("reparse_field_count_differs", r1["name"]))
        for f1, f2 in zip(r1["fields"], r2["fields"]):
            if not same_modulo_escape(f1[0], f2[0]):
                out.append(("reparse_field_name_differs", "%s.%s became %s" % (r1["name"], f1[0], f2[0])))
            if norm_lit_names(f1[1]) != f2[1]:
                out.append((type_diff_class(f1[1], f2[1]), "%s.%s: %s became %s" % (r1["name"], f1[0], f1[1], f2[1])))
            if f1[2] != f2[2]:
                out.append(("reparse_field_tag_differs", "%s.%s: tag %s became %s" % (r1["name"], f1[0], f1[2], f2[2])))
            if f1[3] != f2[3]:
                base = f1[1]
                while base[0] in ("option", "default"):
                    base = base[1]
                cls = consts_diff_class(f1[1], f2[3])
                out.append((cls, "%s.%s: %s became %s" % (r1["name"], f1[0], f1[3], f2[3])))
    elif k == "enum":
        if r1["variants"] != r2["variants"]:
            out.append(("reparse_variants_differ", "%s: %s became %s" % (r1["name"], r1["variants"], r2["variants"])))
    elif k == "choice":
        if len(r1["variants"]) != len(r2["variants"]):
            out.append(("reparse_variant_count_differs", r1["name"]))
        for v1, v2 in zip(r1["variants"], r2["variants"]):
            if v1[0] != v2[0]:
                out.append(("reparse_variant_name_differs", "%s::%s became %s" % (r1["name"], v1[0], v2[0])))
            if norm_lit_names(v1[1]) != v2[1]:
                out.append((type_diff_class(v1[1], v2[1]), "%s::%s: %s became %s" % (r1["name"], v1[0], v1[1], v2[1])))
            if v1[2] != v2[2]:
                out.append(("reparse_variant_tag_differs", "%s::%s: tag %s became %s" % (r1["name"], v1[0], v1[2], v2[2])))
    else:
        if norm_lit_names(r1["type"]) != r2["type"]:
            out.append((type_diff_class(r1["type"], r2["type"]), "%s: %s became %s" % (r1["name"], r1["type"], r2["type"])))
        if r1["consts"] != r2["consts"]:
            base = r1["type"]
            while base[0] in ("option", "default"):
                base = base[1]
            cls = consts_diff_class(r1["type"], r2["consts"])
            out.append((cls, "%s: %s became %s" % (r1["name"], r1["consts"], r2["consts"])))
    return out


def consts_diff_class(t, back):
    """narrow class for constants that came back different: `t` the RustType that carries them, `back` what came back"""
    base, below_default = t, False
    while base[0] in ("option", "default"):
        below_default = below_default or base[0] == "default"
        base = base[1]
    if back == () and base[0] == "bits":
        return "bitstring_constants_lost_on_reparse"
    if back == () and base[0] == "int" and below_default:
        # into_asn hands const(..) to an INTEGER below optional(..) only (Type::no_optional_mut): not below default(..)
        return "default_integer_constants_lost_on_reparse"
    if back == () and base[0] == "int" and t[0] == "option":
        # an extension addition / OPTIONAL component (Option-wrapped): fixed in /repo e572296 -- an ordinary unlisted class, so a
        # regression of Context::to_rust_constants is reported
        return "extension_addition_constants_lost_on_reparse"
    return "reparse_constants_differ"


def type_diff_class(a, b):
    """narrow class for a RustType that came back different"""
    while a[0] == b[0] and a[0] in ("option", "default", "vec"):
        if a[0] == "default" and a[2] != b[2] and norm_lit_names(("default", ("null",), a[2])) != ("default", ("null",), b[2]):
            return "reparse_default_literal_differs"
        if a[0] == "vec" and (a[1], a[2]) != (b[1], b[2]):
            return "reparse_vec_size_or_order_differs"
        a, b = (a[1], b[1]) if a[0] != "vec" else (a[3], b[3])
    if a[0] != b[0]:
        return "reparse_type_kind_differs"
    if a[0] == "int":
        if a[1] != b[1]:
            return "reparse_integer_rust_type_differs"
        if a[4] and (a[2] is None or a[3] is None):
            return "reparse_half_open_extensible_range"       # (n..MAX,...) / (MIN..n,...): the missing bound is materialised
        return "reparse_integer_range_differs"
    if a[0] in ("str", "oct", "bits"):
        return "reparse_size_differs"
    if a[0] == "complex":
        return "reparse_complex_tag_differs" if a[1] == b[1] else "reparse_complex_name_differs"
    return "reparse_type_differs"


# lower-case strict + reserved keywords of the 2021 edition (The Rust Reference): a field so named is emitted with a trailing underscore
GENERATOR_KEYWORDS = ["as", "break", "const", "continue", "crate", "else", "enum", "extern", "false", "fn", "for", "if", "impl", "in",
                      "let", "loop", "match", "mod", "move", "mut", "pub", "ref", "return", "self", "static", "struct", "super",
                      "trait", "true", "type", "unsafe", "use", "where", "while", "async", "await", "dyn",
                      "abstract", "become", "box", "do", "final", "macro", "override", "priv", "typeof", "unsized", "virtual", "yield", "try"]


def types_of(r1):
    if r1["kind"] == "struct":
        return [f[1] for f in r1["fields"]]
    if r1["kind"] == "choice":
        return [v[1] for v in r1["variants"]]
    if r1["kind"] == "tuple":
        return [r1["type"]]
    return []


def has_octet_default(t):
    if t[0] == "default":
        return t[2][0] == "oct" or has_octet_default(t[1])
    if t[0] == "option":
        return has_octet_default(t[1])
    if t[0] == "vec":
        return has_octet_default(t[3])
    return False


def reparse_error_class(r1):
    if any(has_octet_default(t) for t in types_of(r1)):
        return "octet_string_default_not_reparsable"     # default(octet_string, [0x00, ]) is not a literal the macro reads
    if r1["kind"] == "struct" and r1["ext"] >= 0 and r1["ext"] < len(r1["fields"]) and r1["fields"][r1["ext"]][0] in GENERATOR_KEYWORDS:
        return "extensible_after_names_unescaped_field"  # extensible_after(type) but the field is emitted as type_
    if any(untagged_complex(t) for t in types_of(r1)):
        return "complex_without_tag_not_reparsable"      # complex(Name) for a type whose tag is unknown (unresolved import)
    return "reparse_error"


def untagged_complex(t):
    while t[0] in ("option", "default", "vec"):
        t = t[3] if t[0] == "vec" else t[1]
    return t[0] == "complex" and t[2] is None


# --------------------------------------------------------------------------------------------- module generators

def T(name, ty, tag=None):
    return [name, tag, ty]


def INT(lo=None, hi=None, ext=False, named=None):
    return ["int", lo, hi, ext, named or []]


def C(name, ty, opt=None, tag=None):
    return [name, tag, ty, opt]


def SEQ(comps, ext=None):
    return ["seq", comps, ext]


def SET(comps, ext=None):
    return ["set", comps, ext]


def CH(alts, ext=None):
    return ["choice", [[a[0], a[1] if len(a) > 2 else None, a[-1]] for a in alts], ext]


def EN(items, ext=None):
    return ["enum", [[i, None] if isinstance(i, str) else list(i) for i in items], ext]


def M(name, defs, auto=True, vals=None):
    return {"name": name, "auto": auto, "defs": defs, "vals": vals or []}


BOOL, NULL = ["bool"], ["null"]
UTF8 = ["str", "UTF8String", None]


def STR(cs="UTF8String", sz=None):
    return ["str", cs, sz]


def FIX(n, ext=False):
    return ["fix", n, ext]


def RNG(a, b, ext=False):
    return ["rng", a, b, ext]


def REF(n):
    return ["ref", n]


# Named numbers on an INTEGER extension addition / OPTIONAL component: lost before /repo e572296 (to_rust_constants did not
# look through Type::Optional); generated since.  A regression shows up as the unlisted class
# extension_addition_constants_lost_on_reparse (3401) / attr_item_reparse_differs (3413).
GEN_EXT_ADDITION_NAMED = True


# Sibling names that are confusable (case twins, one a prefix / suffix of the other, differing by a trailing digit or by
# the hyphen position) yet stay pairwise distinct after the generator's mangling, as components and as items / alternatives
# (checked with op 3410 kinds 8 and 9: mhz/m_hz/mh_z and Mhz/MHz/MhZ, ab_c/a_bc and AbC/ABc, ...).  No keyword, no `Self`,
# no collision: a name LOOKUP that is sloppy (case-insensitive, prefix match, first hit among similar names) resolves
# extensible_after(..) to an earlier sibling; exact lookup does not.
CONFUSABLE = [["mhz", "mHz", "mhZ"], ["ab", "abc", "abcd"], ["x", "xx"], ["a-b1", "a-b2"], ["ab-c", "a-bc"], ["kHz", "khz"]]
# the same families as they appear in the Rust model (field names after rust_field_name, variant names after rust_variant_name)
CONFUSABLE_FIELDS = [["mhz", "m_hz", "mh_z"], ["mhz", "mHz", "mhZ"], ["ab", "abc", "abcd"], ["x", "xx"], ["a_b1", "a_b2"], ["ab_c", "a_bc"], ["k_hz", "khz"]]
CONFUSABLE_VARIANTS = [["Mhz", "MHz", "MhZ"], ["Ab", "Abc", "Abcd"], ["X", "Xx"], ["AB1", "AB2"], ["AbC", "ABc"], ["KHz", "Khz"]]


def confusable_defs(kind):
    """every family in both orders with the marker after each position in turn (so also after the LATER twin: a wrong
    first hit changes the index); OPTIONAL on every other component so that STD_OPTIONAL_FIELDS moves with the index"""
    defs = []
    k = 0
    for fam in CONFUSABLE:
        for names in (fam, fam[::-1]):
            for e in range(1, len(names) + 1):
                k += 1
                if kind in ("seq", "set"):
                    comps = [C(n, [INT(0, 7), BOOL, UTF8][i % 3], "opt" if i % 2 == 0 else None) for i, n in enumerate(names)]
                    ty = [kind, comps, e]
                elif kind == "choice":
                    ty = CH([(n, [INT(0, 7), BOOL, NULL][i % 3]) for i, n in enumerate(names)], e)
                else:
                    ty = EN(list(names), e)
                defs.append(T("%s%d" % (kind[0].upper() + kind[1:], k), ty))
    return defs


def has_confusable_pair(names):
    """two sibling names of one confusable family"""
    for fam in CONFUSABLE + CONFUSABLE_FIELDS + CONFUSABLE_VARIANTS:
        if len([n for n in set(names) if n in fam]) >= 2:
            return True
    return False


def module_has_confusable_pair(m):
    def walk(ty):
        k = ty[0]
        if k in ("seq", "set"):
            return has_confusable_pair([c[0] for c in ty[1]]) or any(walk(c[2]) for c in ty[1])
        if k == "choice":
            return has_confusable_pair([a[0] for a in ty[1]]) or any(walk(a[2]) for a in ty[1])
        if k == "enum":
            return has_confusable_pair([i[0] for i in ty[1]])
        if k in ("seqof", "setof"):
            return walk(ty[2])
        return False
    return any(walk(d[2]) for d in m["defs"])


# Identifiers on which rust.rs rust_variant_name / rust_struct_or_enum_name is NOT idempotent (found with op 3410: adjacent
# single-letter hyphen segments, a-b -> AB -> Ab; rust_field_name, rust_constant_name, rust_module_name and the generator's
# own three functions are idempotent on everything tried).  A name that is mangled a second time somewhere on the macro
# path (a DEFAULT literal Plan::AB, complex(RouteTA, ..), extensible_after(AB), ..) no longer names what it did.
NONIDEM_IDS = ["a-b", "x-y-z", "plan-b-c", "a-b1", "item-a-b", "mode-s-t", "is-a-b"]
NONIDEM_TYPES = ["Route-T-A", "Rec-A-B", "Pick-X-Y", "T-A", "Plan-B-C"]
NONIDEM_VARIANTS = ["AB", "XYZ", "PlanBC", "AB1", "ItemAB", "ModeST", "IsAB"]      # the items above, mangled once
NONIDEM_TYPE_NAMES = ["RouteTA", "RecAB", "PickXY", "TA", "PlanBC"]


def nonidem_module(name, plan="Plan", route="Route-T-A", rec="Rec-A-B", pick="Pick-X-Y", ta="T-A"):
    """the family at every position where a name travels through generated text and is read back or referenced again"""
    return M(name, [
        T(plan, EN(["a-b", "plan-b-c", "x-y-z", "other"])),
        T(route, EN(["item-a-b", "mode-s-t", "is-a-b"], 2)),
        T(rec, SEQ([C("is-a-b", BOOL), C("a-b1", INT(0, 9, named=[["a-b", 1], ["x-y-z", 2]])), C("x-y-z", REF(plan), ["def", ["enum", "x-y-z"]])], 2)),
        T(pick, CH([("a-b", BOOL), ("x-y-z", REF(rec)), ("plan-b-c", REF(route)), ("mode-s-t", REF(plan))], 2)),
        T("S", SEQ([C("p", REF(plan), ["def", ["enum", "a-b"]]), C("q", REF(route), ["def", ["enum", "mode-s-t"]]), C("r", REF(rec)),
                    C("l", ["seqof", None, REF(route)]), C("e", REF(plan), ["def", ["enum", "plan-b-c"]]), C("c", REF(pick), "opt")], 4)),
        T("X", SET([C("p", REF(plan), ["def", ["enum", "x-y-z"]]), C("k", ["setof", RNG(0, 3), REF(rec)]), C("e", REF(route), ["def", ["enum", "item-a-b"]])], 2)),
        T(ta, INT(0, {"ref": "max-a-b"}, named=[["a-b", 0], ["mode-s-t", 7]]))],
        vals=[["max-a-b", "INTEGER", 7]])


def nonidem_positions(m):
    """number of places in the abstract module where a name of the non-idempotent family sits in a DEFAULT / reference /
    extensible_after position (an ENUMERATED DEFAULT naming such an item, a reference to such a type name, the member
    the marker follows)"""
    def bad(n):
        return crate_type_name(crate_type_name(n)) != crate_type_name(n)
    count = [0]

    def walk(ty):
        k = ty[0]
        if k in ("seq", "set"):
            for i, (cn, _tag, cty, opt) in enumerate(ty[1]):
                if isinstance(opt, list) and isinstance(opt[1], list) and opt[1][0] == "enum" and bad(opt[1][1]):
                    count[0] += 1
                walk(cty)
            if ty[2] and bad(ty[1][ty[2] - 1][0]):
                count[0] += 1
        elif k == "choice":
            for _an, _tag, aty in ty[1]:
                walk(aty)
            if ty[2] and bad(ty[1][ty[2] - 1][0]):
                count[0] += 1
        elif k == "enum":
            if ty[2] and bad(ty[1][ty[2] - 1][0]):
                count[0] += 1
        elif k in ("seqof", "setof"):
            walk(ty[2])
        elif k == "ref" and bad(ty[1]):
            count[0] += 1
    for _n, _tag, ty in m["defs"]:
        walk(ty)
    return count[0]


def templates():
    """hand-written pool: every production of the attribute language at least once"""
    P = []
    P.append(nonidem_module("NonIdem"))
    P.append(nonidem_module("NonIdemB", plan="Plan-B-C", route="A-B", rec="X-Y-Z", pick="Mode-S", ta="Item-A-B"))
    for kind in ("seq", "set", "choice", "enum"):
        P.append(M("Confusable" + kind.capitalize(), confusable_defs(kind)))
    # 0 integer range forms on a transparent type and as components
    forms = [(0, 255), (0, 65535), (0, 65536), (-128, 127), (-129, 127), (1, 1), (5, 5), (-5, -5), (0, 4294967295), (0, 4294967296),
             (-2147483648, 2147483647), (-2147483649, 0), (0, 9223372036854775806), (-9223372036854775807, 9223372036854775806),
             (3, 300), (-300, -3), (0, 1), (7, 1000000)]
    P.append(M("Ints", [T("I%d" % i, INT(lo, hi)) for i, (lo, hi) in enumerate(forms)]))
    P.append(M("IntsExt", [T("I%d" % i, INT(lo, hi, True)) for i, (lo, hi) in enumerate(forms)]))
    P.append(M("IntsSeq", [T("S", SEQ([C("f%d" % i, INT(lo, hi, i % 3 == 0)) for i, (lo, hi) in enumerate(forms)]))]))
    P.append(M("IntsKw", [T("A", INT()), T("B", INT("MIN", "MAX")), T("C", INT(0, "MAX")), T("D", INT("MIN", 100)), T("E", INT("MIN", -100)),
                          T("F", INT(5, "MAX")), T("G", INT(-5, "MAX")), T("H", INT("MIN", "MAX", True)), T("I", INT(0, "MAX", True)),
                          T("J", INT(1, "MAX", True)), T("K", INT("MIN", 0)), T("L", INT("MIN", 9223372036854775807)), T("N", INT(0, 9223372036854775807))]))
    P.append(M("IntsNamed", [T("A", INT(0, 9, named=[["zero", 0], ["nine", 9]])), T("B", INT(named=[["my-const", 5], ["other", -7]])),
                             T("S", SEQ([C("fa", INT(0, 255, named=[["low", 1], ["high-value", 255]])), C("fb", INT(named=[["x", 3]]), "opt")]))]))
    # named numbers below DEFAULT, in SEQUENCE and SET (F08-21)
    P.append(M("IntsNamedDefault", [T("S", SEQ([C("fa", INT(0, 9, named=[["a", 1], ["b", 2]]), ["def", 1]),
                                                C("fb", INT(-5, 5, named=[["low-value", -5]]), ["def", -5]), C("fc", BOOL)])),
                                    T("X", SET([C("fa", INT(0, 255, named=[["max-v", 255]]), ["def", 0]), C("fb", BOOL, "opt")])),
                                    T("E", SEQ([C("fa", BOOL), C("fb", INT(0, 9, named=[["x", 1]] if GEN_EXT_ADDITION_NAMED else None)),
                                                            C("fc", INT(0, 9, named=[["y", 2]]), ["def", 2])], 1)),
                                    T("O", SEQ([C("fa", BOOL), C("g", INT(0, 9, named=[["c", 3]] if GEN_EXT_ADDITION_NAMED else None), "opt"),
                                                C("h", INT(named=[["neg", -7], ["big-one", 70000]] if GEN_EXT_ADDITION_NAMED else None), "opt")])),
                                    T("Y", SET([C("fa", INT(-5, 5, named=[["low", -5]] if GEN_EXT_ADDITION_NAMED else None), "opt"), C("fb", BOOL)], 1))]))
    # sizes
    sizes = [None, FIX(0), FIX(1), FIX(8), FIX(8, True), RNG(0, 10), RNG(1, 64), RNG(1, 64, True), RNG(0, 65535), RNG(0, 65536), RNG(4, 4), RNG(4, 4, True),
             RNG(2, "MAX"), RNG("MIN", 12), RNG("MIN", "MAX"), RNG(0, "MAX"), RNG(1, 9223372036854775806)]
    for cs in STR_TAG:
        P.append(M("Str" + cs[:3], [T("S%d" % i, STR(cs, sz)) for i, sz in enumerate(sizes)]))
    P.append(M("Octs", [T("O%d" % i, ["oct", sz]) for i, sz in enumerate(sizes)]))
    P.append(M("Bits", [T("B%d" % i, ["bits", sz, []]) for i, sz in enumerate(sizes)] + [T("N", ["bits", FIX(16), [["first", 0], ["last-bit", 15]]])]))
    P.append(M("SeqOfs", [T("L%d" % i, ["seqof", sz, INT(0, 9)]) for i, sz in enumerate(sizes)]))
    P.append(M("SetOfs", [T("L%d" % i, ["setof", sz, BOOL]) for i, sz in enumerate(sizes)]))
    P.append(M("SizesSeq", [T("S", SEQ([C("fa", STR("UTF8String", RNG(1, 4))), C("fb", ["oct", FIX(8)], "opt"), C("fc", ["bits", RNG(0, 3, True), []]),
                                       C("fd", ["seqof", RNG(1, 3), STR("IA5String", FIX(2))]), C("fe", ["setof", FIX(2, True), ["oct", RNG(1, 2)]], "opt"),
                                       C("ff", ["seqof", None, ["seqof", RNG(0, 2), INT(0, 1)]])]))]))
    # extensibility / marker positions
    for k in ("seq", "set"):
        comps = [C("fa", INT(0, 7)), C("fb", BOOL, "opt"), C("fc", UTF8, ["def", "x"]), C("fd", NULL), C("fe", INT(-1, 1), "opt")]
        P.append(M("Ext" + k, [T("S%dm%s" % (n, "N" if e is None else e), [k, comps[:n], e]) for n in (1, 2, 3, 5) for e in [None] + list(range(1, n + 1))]))
    # X.680 allows the marker before the first component of a SEQUENCE/SET (all components are additions)
    P.append(M("ExtFirst", [T("S", SEQ([C("fa", INT(0, 7)), C("fb", BOOL, "opt")], 0)), T("X", SET([C("fa", INT(0, 7)), C("fb", BOOL, "opt")], 0))]))
    P.append(M("ExtChoice", [T("C%dm%s" % (n, "N" if e is None else e), CH([("a", INT(0, 7)), ("b", BOOL), ("c-d", UTF8), ("e", NULL)][:n], e))
                             for n in (1, 2, 4) for e in [None] + list(range(1, n + 1))]))
    P.append(M("ExtEnum", [T("E%dm%s" % (n, "N" if e is None else e), EN(["a", "b", "c-d", "e"][:n], e)) for n in (1, 2, 4) for e in [None] + list(range(1, n + 1))]
               + [T("Num", EN([["x", 0], ["y", 5], ["z", 7]], 2)), T("Mix", EN(["p", ["q", 3], "r"]))]))
    # tags of the four classes
    tags = [["U", 2], ["U", 29], ["A", 0], ["A", 3], ["C", 0], ["C", 5], ["C", 31], ["C", 1023], ["P", 1], ["P", 65535]]
    P.append(M("TagsDef", [T("T%d" % i, [INT(0, 9), BOOL, UTF8, ["oct", None], NULL][i % 5], tag) for i, tag in enumerate(tags)], auto=False))
    P.append(M("TagsStruct", [T("S%d" % i, SEQ([C("fa", INT(0, 9))]), tag) for i, tag in enumerate(tags[:5])]
               + [T("C%d" % i, CH([("a", INT(0, 9)), ("b", BOOL)]), tag) for i, tag in enumerate(tags[5:])]
               + [T("E", EN(["a", "b"]), ["U", 5]), T("L", ["seqof", None, BOOL], ["C", 1023]), T("K", ["setof", None, BOOL], ["A", 7])]))
    P.append(M("TagsComp", [T("S", SEQ([C("f%d" % i, [INT(0, 9), BOOL, UTF8, ["oct", None], NULL][i % 5], None, tag) for i, tag in enumerate(tags)])),
                            T("X", SET([C("f%d" % i, [INT(0, 9), BOOL, UTF8][i % 3], "opt" if i % 2 else None, tag) for i, tag in enumerate(tags)])),
                            T("Ch", CH([("a%d" % i, tag, [INT(0, 9), BOOL, NULL][i % 3]) for i, tag in enumerate(tags)]))], auto=False))
    P.append(M("TagsMixed", [T("S", SEQ([C("fa", INT(0, 9), None, ["C", 3]), C("fb", BOOL), C("fc", UTF8, ["def", "q"]), C("fd", ["setof", None, BOOL]),
                                        C("fe", REF("R"), "opt"), C("ff", REF("Q"))])),
                             T("R", INT(0, 3), ["A", 9]), T("Q", SEQ([C("x", BOOL)]))], auto=False))
    # OPTIONAL / DEFAULT with every literal kind
    P.append(M("Defaults", [T("D", SEQ([C("fa", INT(), ["def", 5]), C("fb", INT(-10, 10), ["def", -5]), C("fc", BOOL, ["def", True]), C("fd", BOOL, ["def", False]),
                                       C("fe", UTF8, ["def", "abc"]), C("ff", STR("IA5String", RNG(0, 9)), ["def", "q r"]), C("fg", ["oct", None], ["def", ["hex", "DEADBEEF"]]),
                                       C("fh", REF("Colour"), ["def", ["enum", "red"]]), C("fi", REF("Colour"), ["def", ["enum", "dark-blue"]]),
                                       C("fj", INT(0, 255), ["def", {"ref": "some-value"}]), C("fk", INT(0, 255), "opt"),
                                       C("fl", INT(0, 18446744073709551615 // 2), ["def", 9223372036854775807])])),
                            T("Colour", EN(["red", "green", "dark-blue"]))],
               vals=[["some-value", "INTEGER", 7]]))
    P.append(M("DefaultsExt", [T("D", SEQ([C("fa", INT(0, 9)), C("fb", INT(0, 9), ["def", 3]), C("fc", BOOL, ["def", True]), C("fd", UTF8, "opt")], 1))]))
    P.append(M("DefaultsSet", [T("D", SET([C("fa", INT(0, 9), ["def", 1]), C("fb", BOOL, ["def", False]), C("fc", UTF8, ["def", "zz"])]))]))
    # value references of every kind, in ranges, sizes and defaults
    P.append(M("Values", [T("U", INT(0, {"ref": "max-users"})), T("V", INT({"ref": "min-temp"}, {"ref": "max-users"})), T("W", STR("UTF8String", RNG(1, {"ref": "max-users"}))),
                          T("X", ["oct", FIX({"ref": "eight"})]), T("Y", ["seqof", RNG({"ref": "eight"}, {"ref": "max-users"}), BOOL]),
                          T("Z", SEQ([C("fa", INT(0, {"ref": "max-users"}), ["def", {"ref": "eight"}]), C("fb", BOOL, ["def", {"ref": "flag"}]),
                                      C("fc", UTF8, ["def", {"ref": "greeting"}])]))],
               vals=[["max-users", "INTEGER", 100], ["min-temp", "INTEGER", -40], ["eight", "INTEGER", 8], ["flag", "BOOLEAN", True],
                     ["greeting", "UTF8String", "hello"], ["mask", "OCTET STRING", ["hex", "FF00"]]]))
    # inline anonymous types, nesting
    P.append(M("Nested", [T("Outer", SEQ([C("inner", SEQ([C("x", INT(0, 9)), C("y", INT(0, 9), "opt")])), C("list", ["seqof", None, SEQ([C("k", UTF8), C("v", ["oct", None])])]),
                                         C("set", SET([C("a", BOOL), C("b", NULL)]), "opt"), C("pick", CH([("one", INT(0, 1)), ("two", BOOL)], 1)),
                                         C("kind", EN(["small", "large"], 1), ["def", ["enum", "small"]]) if False else C("kind", EN(["small", "large"], 1)),
                                         C("deep", SEQ([C("deeper", SEQ([C("deepest", CH([("leaf", NULL), ("more", INT(0, 3))]))]))]))]))]))
    P.append(M("NestedChoice", [T("Pick", CH([("rec", SEQ([C("x", INT(0, 9))])), ("en", EN(["p", "q"])), ("lst", ["seqof", RNG(1, 2), CH([("u", BOOL), ("w", NULL)])]),
                                              ("st", ["setof", None, INT(0, 3)])], 2))]))
    # references
    P.append(M("Refs", [T("A", SEQ([C("b", REF("B")), C("c", REF("C"), "opt"), C("d", REF("D")), C("e", ["seqof", RNG(0, 3), REF("E")]), C("f", REF("F"), "opt")])),
                        T("B", INT(0, 9)), T("C", CH([("x", BOOL), ("y", NULL)])), T("D", EN(["p", "q"])), T("E", SEQ([C("z", BOOL)])),
                        T("F", REF("B")), T("G", REF("C"), ["A", 2]), T("H", ["setof", None, REF("A")]), T("I", REF("E"), ["C", 4])]))
    P.append(M("RefsTagged", [T("A", SEQ([C("b", REF("B"), None, ["C", 0]), C("c", REF("C"), None, ["C", 1]), C("d", REF("D"), "opt", ["A", 2])])),
                              T("B", INT(0, 9), ["A", 1]), T("C", CH([("x", ["P", 1], BOOL), ("y", ["P", 2], NULL)])), T("D", EN(["p", "q"]), ["P", 9])], auto=False))
    # everything primitive at top level, hyphenated names
    P.append(M("Prims", [T("Pa", BOOL), T("Pb", NULL), T("Pc", UTF8), T("Pd", ["oct", None]), T("Pe", ["bits", None, []]), T("Pf", INT()),
                         T("My-Type", SEQ([C("my-field", INT(0, 9)), C("other-field-name", BOOL, "opt")], 1)), T("Other-Type", EN(["first-item", "second-item"]))]))
    return P


class Gen:
    """small random grammar over the same abstract language"""

    def __init__(self, rng):
        self.rng = rng
        self.n = 0

    def integer(self):
        r = self.rng
        m = r.random()
        if m < 0.1:
            return INT()
        if m < 0.2:
            return INT(r.choice(["MIN", 0, 1, -3]), "MAX", r.random() < 0.3) if r.random() < 0.5 else INT("MIN", r.choice([0, 100, -100, 70000]), r.random() < 0.3)
        w = r.choice([1, 7, 8, 9, 15, 16, 17, 31, 32, 33, 62, 63])
        lo = r.choice([0, 0, 1, -1, -(2 ** (w - 1)), r.randrange(-2 ** w, 2 ** w)])
        hi = r.choice([2 ** w - 1, 2 ** w, 2 ** (w - 1) - 1, r.randrange(-2 ** w, 2 ** w)])
        if hi < lo:
            lo, hi = hi, lo
        hi = min(hi, 2 ** 63 - 2)
        lo = max(lo, -2 ** 63 + 1)
        if (lo, hi) == (0, 2 ** 63 - 1):
            hi -= 1
        return INT(lo, hi, r.random() < 0.25)

    def size(self):
        r = self.rng
        m = r.random()
        if m < 0.4:
            return None
        if m < 0.55:
            return FIX(r.choice([0, 1, 2, 8, 100, 65535, 65536]), r.random() < 0.3)
        lo = r.choice([0, 1, 2, 10])
        hi = lo + r.choice([1, 2, 5, 100, 65535, 70000])
        return RNG(lo, hi, r.random() < 0.3)

    def prim(self):
        r = self.rng
        m = r.random()
        if m < 0.35:
            return self.integer()
        if m < 0.45:
            return BOOL
        if m < 0.5:
            return NULL
        if m < 0.7:
            return STR(r.choice(list(STR_TAG)), self.size())
        if m < 0.8:
            return ["oct", self.size()]
        if m < 0.88:
            return ["bits", self.size(), []]
        return REF(r.choice(self.refs)) if self.refs else BOOL

    def ty(self, depth):
        r = self.rng
        m = r.random()
        if depth <= 0 or m < 0.55:
            return self.prim()
        if m < 0.7:
            return [r.choice(["seqof", "setof"]), self.size(), self.ty(depth - 1)]
        if m < 0.85:
            return self.struct(depth - 1)
        if m < 0.93:
            return self.choice(depth - 1)
        return self.enum()

    def tag(self):
        r = self.rng
        return [r.choice("UACP"), r.choice([0, 1, 2, 5, 30, 31, 127, 1000])]

    def default_for(self, ty):
        r = self.rng
        k = ty[0]
        if k == "bool":
            return ["def", r.random() < 0.5]
        if k == "int":
            lo = ty[1] if isinstance(ty[1], int) else 0
            hi = ty[2] if isinstance(ty[2], int) else lo + 10
            return ["def", r.choice([lo, hi, (lo + hi) // 2])]
        if k == "str" and ty[2] is None:
            return ["def", r.choice(["a", "hello world", "x y"])] if ty[1] in ("UTF8String", "IA5String", "VisibleString", "PrintableString") else "opt"
        if k == "oct" and ty[1] is None:
            return ["def", ["hex", r.choice(["00", "DEAD", "0102030405"])]]
        return "opt"

    def marker(self, n):
        r = self.rng
        return None if r.random() < 0.55 else r.randrange(1, n + 1)

    def sibling_names(self, n, plain):
        """n sibling names: now and then led by (a shuffled part of) a confusable family, the rest from `plain(i)`"""
        r = self.rng
        names = [plain(i) for i in range(n)]
        if n >= 2 and r.random() < 0.3:
            fam = list(r.choice(CONFUSABLE))
            r.shuffle(fam)
            fam = fam[:n]
            pos = r.sample(range(n), len(fam))
            for p, name in zip(pos, fam):
                names[p] = name
        return names

    def struct(self, depth):
        r = self.rng
        n = r.randrange(1, 6)
        tagged = r.random() < 0.25
        ext = self.marker(n)
        names = self.sibling_names(n, lambda i: "f%d" % i if r.random() < 0.7 else r.choice(["ab-cd", "xy-zw-uv", "long-name"]) + str(i))
        comps = []
        for i in range(n):
            t = self.ty(depth)
            m = r.random()
            opt = None if m < 0.55 else "opt" if m < 0.8 else self.default_for(t)
            addition = ext is not None and i >= ext
            if (t[0] == "int" and isinstance(t[1], int) and isinstance(t[2], int) and r.random() < 0.3
                    and (isinstance(opt, list) or (opt is None and not addition) or GEN_EXT_ADDITION_NAMED)):
                # named numbers (inside the constraint) on plain, OPTIONAL, DEFAULT components and extension additions
                t = INT(t[1], t[2], t[3], [["first", t[1]], ["last-one", t[2]]][:r.randrange(1, 3)])
            comps.append(C(names[i], t, opt,
                           self.unique_tag(i) if tagged and r.random() < 0.8 else None))
        return [r.choice(["seq", "seq", "set"]), comps, ext]

    def unique_tag(self, i):
        r = self.rng
        return [r.choice("ACP"), 10 * i + r.randrange(10)]

    def choice(self, depth):
        r = self.rng
        n = r.randrange(1, 5)
        tagged = r.random() < 0.25
        names = self.sibling_names(n, lambda i: "a%d" % i if r.random() < 0.7 else "alt-%d" % i)
        return ["choice", [[names[i], self.unique_tag(i) if tagged else None, self.ty(depth)] for i in range(n)], self.marker(n)]

    def enum(self):
        r = self.rng
        n = r.randrange(1, 6)
        names = self.sibling_names(n, lambda i: "e%d" % i if r.random() < 0.7 else "item-%d" % i)
        return ["enum", [[names[i], None] for i in range(n)], self.marker(n)]

    def structured_below(self, ty):
        while ty[0] in ("seqof", "setof"):
            ty = ty[2]
        return ty[0] in ("seq", "set", "choice", "enum")

    def module(self):
        r = self.rng
        self.n += 1
        nd = r.randrange(2, 7)
        names = ["T%d" % i for i in range(nd)]
        # references only to primitive / structured definitions declared in this module (no cycles needed for the property)
        self.refs = []
        defs = []
        for i in reversed(range(nd)):
            m = r.random()
            ty = self.ty(2) if m < 0.8 else self.prim()
            if ty[0] in ("seqof", "setof") and self.structured_below(ty) and r.random() < 0.85:
                ty = SEQ([C("wrapped", ty)])      # keep only a few `T ::= SEQUENCE OF <anonymous structured type>` (name clash, see oracle)
            defs.append(T(names[i], ty, self.tag() if r.random() < 0.2 else None))
            self.refs.append(names[i])
        defs.reverse()
        if r.random() < 0.25:
            defs += self.nonidem_bundle()
        return M("Gen%d" % self.n, defs, auto=r.random() < 0.8)

    def nonidem_bundle(self):
        """an ENUMERATED (often with a non-idempotent type name) whose non-idempotent items are named by DEFAULTs at root and
        extension positions of a SEQUENCE / SET, referenced below SEQUENCE OF and as a CHOICE alternative type"""
        r = self.rng
        ename, sname, cname = r.sample(NONIDEM_TYPES + ["Plan", "Mode"], 3)
        items = r.sample(NONIDEM_IDS, r.randrange(2, 5)) + (["plain"] if r.random() < 0.5 else [])
        r.shuffle(items)
        enum = T(ename, EN(items, None if r.random() < 0.5 else r.randrange(1, len(items) + 1)))
        pick = lambda: r.choice([i for i in items if i != "plain"])
        comps = [C("fa", REF(ename), ["def", ["enum", pick()]]), C(r.choice(NONIDEM_IDS), BOOL, "opt"),
                 C("fl", [r.choice(["seqof", "setof"]), None, REF(ename)]), C("fe", REF(ename), ["def", ["enum", pick()]])]
        comps = comps[:r.randrange(2, 5)]
        struct = T(sname, [r.choice(["seq", "set"]), comps, None if r.random() < 0.4 else r.randrange(1, len(comps) + 1)])
        alts = r.sample(NONIDEM_IDS, 2)
        choice = T(cname, CH([(alts[0], REF(ename)), (alts[1], REF(sname)), ("zz", BOOL)], None if r.random() < 0.4 else r.randrange(1, 4)))
        return [enum, struct, choice]


# --------------------------------------------------------------------------------------------- op 3412: attribute types

def e_str(s):
    return [len(s)] + [ord(c) for c in s]


def model_implements(probe):
    """does the extracted Coq model answer this op (anything but the unknown-op answer -1)?"""
    try:
        import vlib
        return vlib.run_model([probe])[0].strip() != "-1"
    except Exception:
        return False


class AttrGen:
    """random attribute types in the image of to_rust + into_asn (encoding: coq/Extract/OpsCodegen.v)"""
    NAMES = ["T", "Tb", "Colour", "MyType", "X1", "Other", "A9b", "RouteTA", "TA"]
    VARIANTS = ["Red", "DarkBlue", "A", "X1"]
    # ENUMERATED default literals also in the ASN.1 spelling the start model holds: printed mangled ONCE (a-b -> AB), and a
    # second mangling (AB -> Ab) would show in what comes back
    LIT_TYPES = ["Colour", "Plan", "Route-T-A", "T-A", "Plan-B-C"]
    LIT_VARIANTS = ["Red", "dark-blue", "a-b", "x-y-z", "plan-b-c", "a-b1", "item-a-b", "mode-s-t"]

    def __init__(self, rng):
        self.rng = rng

    def size(self):
        r = self.rng
        m = r.random()
        if m < 0.35:
            return [0]
        if m < 0.6:
            return [1, r.choice([0, 1, 2, 8, 255, 65535, 65536, 2 ** 32, 2 ** 63 - 1, 2 ** 64 - 1]), r.randrange(2)]
        a = r.choice([0, 1, 2, 10, 65535])
        b = a + r.choice([1, 2, 100, 65536, 2 ** 40])
        return [2, a, b, r.randrange(2)]

    def bound(self):
        r = self.rng
        k = r.choice([0, 1, 7, 8, 15, 16, 31, 32, 62, 63])
        v = r.choice([0, 1, -1, 2 ** k - 1, -(2 ** k), 2 ** k - 2 if k else 0, r.randrange(-2 ** k, 2 ** k + 1)])
        return max(-2 ** 63, min(2 ** 63 - 1, v))

    def integer(self):
        r = self.rng
        m = r.random()
        if m < 0.15:
            return [2, 0, 0, 0, 0, r.randrange(2)]
        if m < 0.25:
            # half-open: only extensible ranges keep a missing bound in the Rust model
            if r.random() < 0.5:
                return [2, 1, r.choice([1, 5, 2 ** 40]), 0, 0, 1]
            return [2, 0, 0, 1, r.choice([0, 1, 70000, 2 ** 62]), 1]
        a, b = self.bound(), self.bound()
        if a > b:
            a, b = b, a
        return [2, 1, a, 1, b, r.randrange(2)]

    def lit_for(self, t):
        r = self.rng
        k = t[0]
        if k == 0:
            return [0, r.randrange(2)]
        if k == 2:
            return [2, r.choice([0, 1, -1, 5, -5, 2 ** 63 - 1, -2 ** 63])]
        if k == 3:
            return [1] + e_str(r.choice(["", "a", "hello world", "x y", "A-Z 0.9"]))
        if k == 4:
            return [3, 2, 222, 173] if r.random() < 0.5 else [3, 0]
        if k == 10:
            if r.random() < 0.5:
                return [4] + e_str(r.choice(self.LIT_TYPES)) + e_str(r.choice(self.LIT_VARIANTS))
            return [4] + e_str(r.choice(self.NAMES)) + e_str(r.choice(self.VARIANTS))
        return None

    def leaf(self):
        r = self.rng
        m = r.random()
        if m < 0.08:
            return [0]
        if m < 0.14:
            return [1]
        if m < 0.45:
            return self.integer()
        if m < 0.65:
            return [3] + self.size() + [r.randrange(5)]
        if m < 0.75:
            return [4] + self.size()
        if m < 0.85:
            return [5] + self.size()
        tag = [0] if r.random() < 0.05 else [1, r.randrange(4), r.choice([0, 1, 2, 16, 31, 1023, 2 ** 32, 2 ** 64 - 1])]
        return [10] + e_str(r.choice(self.NAMES)) + tag

    def ty(self, depth):
        r = self.rng
        m = r.random()
        if depth <= 0 or m < 0.45:
            return self.leaf()
        if m < 0.6:
            return [6] + self.ty(depth - 1)
        if m < 0.75:
            t = self.leaf()
            l = self.lit_for(t)
            return ([7] + t + l) if l is not None else [6] + t
        return [r.choice([8, 9])] + self.size() + self.ty(depth - 1)


def mangle_enum_lits(a):
    """the attribute type encoding `a` with the names of every ENUMERATED default literal mangled once (what the printer
    does on purpose: LiteralValue::as_rust_const_literal(true)); everything else unchanged"""
    out = []

    def size(p):
        n = {0: 1, 1: 3, 2: 4}[a[p]]
        out.extend(a[p:p + n])
        return p + n

    def walk(p):
        k = a[p]
        out.append(k)
        if k in (0, 1):
            return p + 1
        if k == 2:
            out.extend(a[p + 1:p + 6])
            return p + 6
        if k in (3, 4, 5):
            q = size(p + 1)
            if k == 3:
                out.append(a[q])
                q += 1
            return q
        if k == 6:
            return walk(p + 1)
        if k == 7:
            q = walk(p + 1)
            lk = a[q]
            if lk in (0, 2):
                out.extend(a[q:q + 2])
                return q + 2
            if lk in (1, 3):
                out.extend(a[q:q + 2 + a[q + 1]])
                return q + 2 + a[q + 1]
            out.append(4)
            q += 1
            for _ in range(2):
                name = "".join(chr(c) for c in a[q + 1:q + 1 + a[q]])
                out.extend(e_str(crate_type_name(name)))
                q += 1 + a[q]
            return q
        if k in (8, 9):
            return walk(size(p + 1))
        if k == 10:
            q = p + 2 + a[p + 1]
            n = 1 if a[q] == 0 else 3
            out.extend(a[p + 1:q + n])
            return q + n
        raise ValueError(k)
    end = walk(0)
    assert end == len(a), (end, a)
    return out


def skip_tokens(o, p, n):
    for _ in range(n):
        k = o[p]
        if k in (1, 5):
            p += 2 + o[p + 1]
        elif k in (2, 3):
            p += 2
        elif k in (4, 6):
            p = skip_tokens(o, p + 2, o[p + 1])
        else:
            raise ValueError("bad token code %d" % k)
    return p


def attr_deviation_class(a):
    """known reasons why an attribute type does not come back (same names as for op 3401)"""
    def walk(p):
        k = a[p]
        if k in (0, 1):
            return p + 1, []
        if k == 2:
            half = a[p + 1] != a[p + 3]
            return p + 6, (["reparse_half_open_extensible_range"] if half else [])
        if k in (3, 4, 5):
            q = p + 1
            q += {0: 1, 1: 3, 2: 4}[a[q]]
            return q + (1 if k == 3 else 0), []
        if k == 6:
            return walk(p + 1)
        if k == 7:
            q, c = walk(p + 1)
            lk = a[q]
            if lk == 0 or lk == 2:
                return q + 2, c
            if lk == 1:
                return q + 2 + a[q + 1], c
            if lk == 3:
                return q + 2 + a[q + 1], c + ["octet_string_default_not_reparsable"]
            q2 = q + 2 + a[q + 1]
            return q2 + 1 + a[q2], c
        if k in (8, 9):
            q = p + 1
            q += {0: 1, 1: 3, 2: 4}[a[q]]
            return walk(q)
        if k == 10:
            q = p + 2 + a[p + 1]
            if a[q] == 0:
                return q + 1, ["complex_without_tag_not_reparsable"]
            return q + 3, []
        raise ValueError(k)
    return walk(0)[1]


# --------------------------------------------------------------------------------------------- op 3413: whole attributes

def aty_end(a, p):
    """index just after the attribute type encoded at a[p:]"""
    k = a[p]
    if k in (0, 1):
        return p + 1
    if k == 2:
        return p + 6
    if k in (3, 4, 5):
        q = p + 1
        q += {0: 1, 1: 3, 2: 4}[a[q]]
        return q + (1 if k == 3 else 0)
    if k == 6:
        return aty_end(a, p + 1)
    if k == 7:
        q = aty_end(a, p + 1)
        lk = a[q]
        if lk in (0, 2):
            return q + 2
        if lk in (1, 3):
            return q + 2 + a[q + 1]
        q2 = q + 2 + a[q + 1]
        return q2 + 1 + a[q2]
    if k in (8, 9):
        q = p + 1
        q += {0: 1, 1: 3, 2: 4}[a[q]]
        return aty_end(a, q)
    if k == 10:
        q = p + 2 + a[p + 1]
        return q + (1 if a[q] == 0 else 3)
    raise ValueError(k)


class AttrItemGen:
    """whole attributes as the generator prints them for definitions, struct / tuple fields and CHOICE variants, and the
    hand-written `#[asn(n)]` of ENUMERATED variants (encoding: coq/Extract/OpsCodegen.v run_attr_item)"""
    FIELDS = ["a", "ab", "my_field", "x1", "value", "long_name_2", "type", "match", "fn", "self", "ref", "yield", "q"]
    VARIANTS = ["A", "Bc", "DarkBlue", "X1", "Red", "V2", "Other", "AB", "XYZ", "PlanBC", "AB1", "ItemAB", "ModeST"]
    CONSTS = ["A", "ABC", "MY_CONST", "X1", "HIGH_VALUE", "B2"]

    def __init__(self, rng):
        self.rng = rng
        self.ag = AttrGen(rng)

    def tagopt(self, p=0.5):
        r = self.rng
        if r.random() >= p:
            return [0]
        return [1, r.randrange(4), r.choice([0, 1, 2, 16, 31, 1023, 2 ** 32, 2 ** 64 - 1])]

    def header(self):
        r = self.rng
        kind = r.choice([0, 0, 1, 2, 3, 4])
        if kind == 4:
            return [0, 4] + self.tagopt() + [-1, 0]
        pool = self.FIELDS if kind in (0, 1) else self.VARIANTS
        if r.random() < 0.4:
            # confusable siblings (distinct after mangling, no keyword), the marker after any of them -- preferably a later one
            fam = list(r.choice(CONFUSABLE_FIELDS if kind in (0, 1) else CONFUSABLE_VARIANTS))
            names = list(fam)
            r.shuffle(names)
            extra = [n for n in pool if n not in GENERATOR_KEYWORDS and n not in names]
            for n in r.sample(extra, r.randrange(0, 3)):
                names.insert(r.randrange(len(names) + 1), n)
            ext = r.randrange(len(names)) if r.random() < 0.5 else max(i for i, n in enumerate(names) if n in fam)
        else:
            names = r.sample(pool, r.randrange(1, 6))
            ext = -1 if r.random() < 0.4 else r.randrange(len(names))
        out = [0, kind] + self.tagopt() + [ext, len(names)]
        for n in names:
            out += e_str(n)
        return out

    def consts(self):
        r = self.rng
        names = r.sample(self.CONSTS, r.randrange(1, 4))
        out = [len(names)]
        for n in names:
            out += e_str(n) + [r.choice([0, 1, 7, 255, -1, -40, 2 ** 31, 2 ** 63 - 1, -2 ** 63])]
        return out

    def field(self):
        r = self.rng
        ctx = r.choice([1, 1, 2, 3])
        m = r.random()
        if ctx != 2 and m < 0.35:
            # named numbers / named bits: where to_rust puts constants (INTEGER, an extension addition made optional, BIT STRING)
            t = self.ag.integer()
            k = r.random()
            if k < 0.25 and ctx == 3:
                pass        # a transparent definition is never optional(..): T ::= INTEGER {..} OPTIONAL is no ASN.1
            elif k < 0.25:
                t = [6] + t
            elif k < 0.4:
                t = [5] + self.ag.size()
            elif k < 0.55:
                t = [7] + t + self.ag.lit_for(t)          # named numbers below DEFAULT (F08-21)
            cs = self.consts()
        else:
            t = self.ag.ty(2)
            cs = [0]
        if ctx == 1:
            return [1] + t + self.tagopt(0.4) + cs
        if ctx == 2:
            return [2] + t + self.tagopt(0.4)
        return [3] + t + cs

    def enum_variant(self):
        r = self.rng
        if r.random() < 0.2:
            return [4, 0]
        return [4, 1, r.choice([0, 1, 5, 255, 65536, 2 ** 32, 2 ** 63, 2 ** 64 - 1])]

    def line(self):
        m = self.rng.random()
        a = self.header() if m < 0.4 else self.field() if m < 0.93 else self.enum_variant()
        return "3413 " + " ".join(map(str, a))


def attr_item_expected(a):
    """what the property demands of the re-parsed attribute: the answer's result part for the encoded attribute `a`"""
    if a[0] == 0:
        p = 2
        p += 1 if a[p] == 0 else 3
        return [0, a[1]] + a[2:p] + [a[p]]
    if a[0] == 4:
        return [0] + a[1:]
    e = aty_end(a, 1)
    a = a[:1] + mangle_enum_lits(a[1:e]) + a[e:]
    e = aty_end(a, 1)
    # ... followed by the member's constants in to_rust_keep_names of the re-parsed definition: the same list (a CHOICE
    # variant carries none)
    if a[0] == 1:
        p = e + (1 if a[e] == 0 else 3)
        return [0] + a[1:] + a[p:]
    if a[0] == 2:
        return [0] + a[1:] + [0, 0]
    return [0] + a[1:e] + [0] + a[e:] + a[e:]


def attr_item_deviation_classes(a):
    """known reasons why a whole attribute does not come back as it went in"""
    if a[0] == 0:
        kind = a[1]
        p = 2
        p += 1 if a[p] == 0 else 3
        ext, n = a[p], a[p + 1]
        names = []
        q = p + 2
        for _ in range(n):
            names.append("".join(chr(c) for c in a[q + 1:q + 1 + a[q]]))
            q += 1 + a[q]
        if kind in (0, 1) and 0 <= ext < n and names[ext] in GENERATOR_KEYWORDS:
            return ["extensible_after_names_unescaped_field"]
        return []
    if a[0] == 4:
        return []
    e = aty_end(a, 1)
    known = list(attr_deviation_class(a[1:e]))
    tail = a[e:]
    if a[0] != 2:
        nconsts = tail[0] if a[0] == 3 else tail[1 if tail[0] == 0 else 3]
        base = 1
        while a[base] == 6:
            base += 1
        if nconsts > 0 and a[base] == 5:
            known.append("bitstring_constants_lost_on_reparse")
        if nconsts > 0 and a[base] == 7:
            inner = base + 1
            while a[inner] == 6:
                inner += 1
            if a[inner] == 2:
                known.append("default_integer_constants_lost_on_reparse")
    return known


# --------------------------------------------------------------------------------------------- op 3414: descriptor constants

TRAIT_CODE = {"D::numbers::Constraint": 0, "D::utf8string::Constraint": 1, "D::numericstring::Constraint": 2,
              "D::printablestring::Constraint": 3, "D::ia5string::Constraint": 4, "D::visiblestring::Constraint": 5,
              "D::octetstring::Constraint": 6, "D::bitstring::Constraint": 7, "D::sequenceof::Constraint": 8,
              "D::setof::Constraint": 9, "D::sequence::Constraint": 10, "D::set::Constraint": 11, "D::choice::Constraint": 12,
              "D::enumerated::Constraint": 13}
CONST_CODE = {"MIN": 0, "MAX": 1, "EXTENSIBLE": 2, "STD_VARIANT_COUNT": 3, "VARIANT_COUNT": 4, "STD_OPTIONAL_FIELDS": 5,
              "FIELD_COUNT": 6, "EXTENDED_AFTER_FIELD": 7}


def const_value(text):
    if text == "None":
        return -1
    if text in ("true", "false"):
        return 1 if text == "true" else 0
    m = re.fullmatch(r"Some\((-?\d+)\)", text)
    if m:
        return int(m.group(1))
    return int(text)


def crate_descriptor_consts(cs):
    """the constants Front/Descr.v models, out of what the harness extracted from expand(): sorted (owner, trait, const, value)"""
    out = []
    for (me, tr, nm), (_ty, val) in cs.items():
        t = TRAIT_CODE.get(strip_generic(tr))
        c = CONST_CODE.get(nm)
        if t is None or c is None:
            continue
        out.append((me, t, c, const_value(val)))
    return sorted(out)


def model_descriptor_consts(out):
    """answer of op 3414 -> ("ok", sorted list) | ("panic", class) | ("other", text)"""
    o = list(map(int, out.split()))
    if o[:1] == [2]:
        return ("panic", o[1])
    if o[:1] != [0]:
        return ("other", out[:100])
    d = Dec(o, 1)
    res = []
    for _ in range(d.i()):
        owner = d.s()
        res.append((owner, d.i(), d.i(), d.i()))
    return ("ok", sorted(res))


# --------------------------------------------------------------------------------------------- the check

class C08(Spec):
    prop = "C08"
    coq_targets = ["Props/C08.vo"]
    prop_module = "Props.C08"
    theorems = ["C08_reparse_type_partial", "C08_reparse_type_in_context", "C08_refuted_half_open_range",
                "C08_refuted_octet_default", "C08_refuted_untagged_complex",
                "C08_reparse_attribute", "C08_reparse_attribute_wf", "C08_header_kind", "C08_ext_index_struct", "C08_ext_index_enum",
                "C08_refuted_ext_escaped", "C08_into_asn_keeps", "C08_optional_constants_kept", "C08_refuted_consts_dropped",
                "C08_consts", "C08_std_optional_fields", "C08_set_sort_keeps_root", "C08_consts_integer", "C08_consts_bounds"]
    builds = [("default", "dev")]
    level_text = ("PARTIAL. Proved in Coq (Front/Attr.v, Front/AttrItem.v, Front/Descr.v, Props/C08.v): (1) the whole attribute -- "
                  "C08_reparse_attribute: every attribute the generator prints for a definition header, a struct / tuple field or a CHOICE "
                  "variant (kind or type, tag(..), extensible_after(name), const(NAME(value),..)) is read back by the model of "
                  "AsnAttribute::parse as itself, outside three refuted classes of the type part (half-open integer ranges, OCTET/BIT STRING "
                  "default literals, complex(Name) without tag); at item level the header kind is recognised, extensible_after(..) finds its "
                  "member outside F08-2 (refuted: escaped field name) and into_asn keeps the constants outside F08-15 (refuted); model tied "
                  "to the crate by ops 3412 / 3413 (printed tokens and what parse_asn_definition shows of the re-parsed attribute, line by "
                  "line). (2) the descriptor constants -- C08_consts: MIN/MAX/EXTENSIBLE, STD_VARIANT_COUNT/VARIANT_COUNT, "
                  "EXTENDED_AFTER_FIELD/FIELD_COUNT/STD_OPTIONAL_FIELDS the walker emits are those of the Rust model's constraints (marker "
                  "position, component count, OPTIONAL/DEFAULT components of the root also after the canonical SET sort, root items, bounds "
                  "present exactly when the range/size has them); model tied by op 3414 against the constants of the crate's expand() for "
                  "every definition op 3401 re-parses. NOT proved: the item bodies (struct / enum syntax), to_rust / to_rust_keep_names "
                  "(ASN.1 module -> Rust model), TAG / DEFAULT_VALUE constants, the lexing of the printed text (trusted). "
                  "That remainder is differential/oracle evidence: whole ASN.1 modules are pushed "
                  "through the crate's real front end, code generator and attribute-macro entry points (parse_asn_definition, "
                  "to_rust_keep_names, expand); the oracle compares the re-parsed Rust model with the one the generator started from and "
                  "the expanded descriptor constants with the constraints of the module computed independently from the abstract "
                  "description each generated case carries. Op 3401 has NO Coq counterpart: the model/implementation line comparison "
                  "is vacuous for it (model_line maps it to the unknown op 3400, canon erases both answers).")
    rule = ("a pool of hand-written abstract modules (every integer range form incl. MIN/MAX keywords and named numbers, every SIZE form on "
            "every string kind / OCTET / BIT STRING / SEQUENCE OF / SET OF, every extension-marker position of SEQUENCE/SET/CHOICE/"
            "ENUMERATED, tags of the four classes on definitions/components/alternatives, OPTIONAL/DEFAULT with every literal kind and "
            "value references, inline anonymous types, references), a seeded random grammar over the same language, and every ASN.1 "
            "module text found in /repo (tests, sources, README; corpus/C08/repo_modules.txt, judged by the re-parse oracle only). "
            "non-trivial = at least one definition was generated, re-parsed and expanded; distinct = distinct module text")
    assumptions_text = ["the canonical integer dump of the Rust model in harness/a1h/src/codegen.rs and the syn-based extraction of "
                        "associated consts from the expansion",
                        "the rendering of abstract modules as ASN.1 text in checks/C08.py"]
    xcheck_n = 120
    timeout_per_chunk = 300

    IMPL_ONLY = ("3401", "3402", "3403")
    pending_consts = []      # (case line, dump of the re-parsed definition, constants of its expansion): judged in extra_checks

    def count_confusable(self, ctx):
        """how many cases carry sibling names of one confusable family (CONFUSABLE*)"""
        n3401 = n3413 = 0
        for l in ctx["lines"]:
            if l.startswith("3401 "):
                d = desc_of_text(text_of_line(l))
                if d is not None and module_has_confusable_pair(d):
                    n3401 += 1
            elif l.startswith("3413 0 "):
                a = list(map(int, l.split()))[1:]
                try:
                    p = 2
                    p += 1 if a[p] == 0 else 3
                    q, names = p + 2, []
                    for _ in range(a[p + 1]):
                        names.append("".join(chr(c) for c in a[q + 1:q + 1 + a[q]]))
                        q += 1 + a[q]
                    if a[p] >= 0 and has_confusable_pair(names):
                        n3413 += 1
                except IndexError:
                    pass
        ctx.setdefault("coverage_extra", {})["confusable_sibling_names"] = {
            "modules_op_3401": n3401, "extensible_headers_op_3413": n3413}
        mods = pos = 0
        for l in ctx["lines"]:
            if l.startswith("3401 "):
                d = desc_of_text(text_of_line(l))
                k = nonidem_positions(d) if d is not None else 0
                mods += 1 if k else 0
                pos += k
        ctx["coverage_extra"]["non_idempotent_names"] = {"modules_op_3401_with_default_or_reference_position": mods, "positions": pos}

    def extra_checks(self, ctx):
        """op 3414: the constants Front/Descr.v computes for the re-parsed Rust model (its dump is part of the answer of
        op 3401) against the constants the harness extracted from the crate's expand() of the same definition.  A
        difference is a model/implementation disagreement."""
        pend, self.pending_consts = self.pending_consts, []
        if not pend or not model_implements("3414 1 84 3 0 0 0"):
            return
        lines = ["3414 " + " ".join(map(str, raw)) for _l, raw, _c in pend]
        import vlib
        outs = vlib.run_model(lines, timeout=self.timeout_per_chunk * 3, mem_gb=8)
        compared = 0
        self.count_confusable(ctx)
        for (case, raw, cs), ml, mo in zip(pend, lines, outs):
            got = model_descriptor_consts(mo)
            if got[0] == "other" and mo.strip() == "-2":
                continue        # outside the model's input language (a non-ASCII name)
            if cs[0] == "panic":
                want = ("panic", cs[2])
            else:
                want = ("ok", crate_descriptor_consts(cs[1]))
            compared += 1
            if got != want:
                ctx["disagreements"].append({"case": case[:2000], "build": ["default", "dev"], "op": ml[:2000],
                                             "impl": str(want)[:600], "model": str(got)[:600]})
        ctx["notes"].append("op 3414: %d expansions compared with Front/Descr.v consts_of" % compared)

    def model_line(self, line, build):
        # ops without a Coq counterpart: ask the model for nothing (unknown op -> -1); canon erases both sides
        return "3400" if line.split(" ", 1)[0] in self.IMPL_ONLY else line

    def canon(self, out):
        # the harness ends every answer of an implementation-only op with the sentinel -3400; "-1" is the model's
        # answer to the unknown op 3400 these lines are mapped to. Everything else is compared literally.
        if out == "-1" or out.endswith(IMPL_ONLY_SUFFIX) or out in ("3 31", "3 32"):   # crash: reported by the oracle
            return "IMPL-ONLY"
        return out

    def gen(self, rng, tier):
        L = []
        for m in templates():
            L.append(line_of(render_module(m)))
        g = Gen(rng)
        for _ in range(560 if tier == "quick" else 16000):
            L.append(line_of(render_module(g.module())))
        # the attribute sub-language on its own (op 3412, modelled by coq/Front/Attr.v): only when the model has it
        if model_implements("3412 0"):
            ag = AttrGen(rng)
            for _ in range(2500 if tier == "quick" else 60000):
                L.append("3412 " + " ".join(map(str, ag.ty(3))))
        # whole attributes (op 3413, modelled by coq/Front/AttrItem.v)
        if model_implements("3413 4 0"):
            ig = AttrItemGen(rng)
            for _ in range(2500 if tier == "quick" else 60000):
                L.append(ig.line())
        return L

    # ---------------------------------------------------------------- oracle
    def oracle_attr(self, line, out):
        a = list(map(int, line.split()))[1:]
        o = list(map(int, out.split()))
        if o[:1] != [0]:
            if o[:1] == [-2]:
                return None
            return ("attr_generation_failed", "%s -> %s" % (line, out[:100]))
        try:
            p = skip_tokens(o, 2, o[1])
        except (ValueError, IndexError):
            return ("malformed_answer", out[:200])
        back = o[p:]
        if back == [0] + mangle_enum_lits(a):
            return None
        known = attr_deviation_class(a)
        if known:
            return [(c, "attribute type %s came back as %s" % (a, back)) for c in sorted(set(known))]
        return ("attr_reparse_differs", "attribute type %s came back as %s" % (a, back))

    def oracle_attr_item(self, line, out):
        a = list(map(int, line.split()))[1:]
        o = list(map(int, out.split()))
        if o[:1] != [0]:
            if o[:1] == [-2] or o[:2] == [2, 1]:
                return None     # malformed line / a Rust model whose extension index is out of range: not in the generator's domain
            return ("attr_generation_failed", "%s -> %s" % (line, out[:100]))
        try:
            p = skip_tokens(o, 2, o[1])
            want = attr_item_expected(a)
            known = attr_item_deviation_classes(a)
        except (ValueError, IndexError):
            return ("malformed_answer", out[:200])
        back = o[p:]
        if back == want:
            return None
        if a[0] == 4 and len(a) == 3 and a[2] >= 2 ** 64:
            return None     # not a usize: no ENUMERATED number of the Rust model
        if known:
            return [(c, "attribute %s came back as %s" % (a, back)) for c in sorted(set(known))]
        return ("attr_item_reparse_differs", "attribute %s came back as %s, expected %s" % (a, back, want))

    def oracle(self, line, out, build):
        a = line.split(" ", 1)
        if a[0] == "3412":
            return self.oracle_attr(line, out)
        if a[0] == "3413":
            return self.oracle_attr_item(line, out)
        if a[0] != "3401":
            return None
        text = text_of_line(line)
        desc = desc_of_text(text)
        shown = text if desc is None else render_module(desc, with_desc=False)
        shown = " ".join(shown.split())
        try:
            ans = parse_answer(out)
        except Exception as e:      # malformed answer: harness defect, must be visible
            return ("malformed_answer", "%s: %s" % (e, out[:200]))
        if ans[0] == "other":
            if out.startswith("3 "):
                return ("front_end_crash", "%s :: %s" % (out, shown))
            return ("malformed_answer", out[:200])
        if ans[0] == "err":
            # stage 1/2: the front end rejected the module (not an accepted module: property vacuous) -- but a module of
            # this check's own generator is legal ASN.1 of the supported subset, so a rejection is reported
            if ans[1] in (1, 2):
                return None
            if ans[1] == 5:
                return ("generated_text_not_rust", shown)
            return ("codegen_error_stage_%d" % ans[1], shown)
        if ans[0] == "panic":
            return ("front_end_panic" if ans[1] <= 3 else "generator_panic", "stage %d class %d :: %s" % (ans[1], ans[2], shown))
        fails = []
        exp = Expect(desc) if desc is not None else None
        got_names = []
        got_count = {}
        for defs in ans[1]:
            for d in defs:
                got_count[d["r1"]["name"]] = got_count.get(d["r1"]["name"], 0) + 1
        for defs in ans[1]:
            for d in defs:
                r1 = d["r1"]
                got_names.append(r1["name"])
                r2 = d["r2"]
                if r2[0] == "err":
                    fails.append((reparse_error_class(r1), "definition %s: the macro's parser rejects the generated item (stage %d)" % (r1["name"], r2[1])))
                elif r2[0] == "panic":
                    fails.append(("reparse_panic", "definition %s: stage %d class %d" % (r1["name"], r2[1], r2[2])))
                elif len(r2[1]) != 1:
                    fails.append(("reparse_definition_count", "definition %s came back as %d definitions" % (r1["name"], len(r2[1]))))
                else:
                    fails += diff_defs(r1, r2[1][0])
                cs = d["consts"]
                if r2[0] == "ok" and len(r2[1]) == 1 and cs[0] in ("ok", "panic") and len(self.pending_consts) < 200000:
                    self.pending_consts.append((line, r2[2][0], cs))
                if cs[0] == "err" and r2[0] == "ok":
                    fails.append(("expand_error", "definition %s: stage %d" % (r1["name"], cs[1])))
                elif cs[0] == "panic" and r2[0] == "ok":
                    fails.append(("expand_panic", "definition %s: stage %d class %d" % (r1["name"], cs[1], cs[2])))
                elif cs[0] == "ok" and exp is not None and got_count[r1["name"]] == 1:
                    fails += self.judge_consts(r1["name"], cs[1], exp)
        dups = sorted(set(n for n in got_names if got_names.count(n) > 1))
        if dups:
            # e.g. T ::= SEQUENCE OF SEQUENCE {..}: the anonymous element type is emitted under the name of T itself
            fails.append(("duplicate_definition_names", "definitions %s are emitted more than once" % dups))
        elif exp is not None and sorted(got_names) != sorted(exp.names):
            fails.append(("definition_set_differs", "definitions %s, expected %s" % (sorted(got_names), sorted(exp.names))))
        if not fails:
            return None
        seen = set()
        res = []
        for c, t in fails:
            if c not in seen:
                seen.add(c)
                res.append((c, "%s :: %s" % (t, shown[:1500])))
        return res

    def judge_consts(self, defname, got, exp):
        fails = []
        gotn = {}
        for (me, tr, name), (ty, val) in got.items():
            gotn[(me, strip_generic(tr), name)] = val
        # every expected constant of this definition's constraint types
        for key, (want, info) in exp.e.items():
            me, tr, name = key
            owner = me[len("___asn1rs_"):] if me.startswith("___asn1rs_") else me
            if not (owner == defname or owner.startswith(defname + "Field")):
                continue
            if owner != defname and not self.owned_by(owner, defname, exp):
                continue
            if name not in JUDGED:
                continue
            present = any(k[0] == me for k in gotn)
            if not present:
                fails.append(("constraint_type_missing", "%s has no constraint impl in the expansion of %s" % (me, defname)))
                continue
            g = gotn.get(key)
            if name == "MIN" and info.endswith(" size") and want == "Some(0)" and g is None:
                continue        # no lower bound on a size == lower bound 0
            if name in ("MIN", "MAX") or want is not None:
                if g != want:
                    fails.append((const_class(key, want, g, info), "%s %s::%s = %s, the module says %s (%s)" % (me, tr, name, g, want, info)))
        return fails

    @staticmethod
    def owned_by(owner, defname, exp):
        """`TFieldX...` belongs to definition T unless a longer definition name is also a prefix (T vs TField...)"""
        best = max((n for n in exp.names if owner == n or owner.startswith(n + "Field")), key=len, default=None)
        return best == defname

    def nontrivial(self, line, out):
        o = out.split(" ", 3)
        if line.startswith("3412") or line.startswith("3413"):
            return o[:1] == ["0"] and len(line.split()) > 3
        return o[:1] == ["0"] and len(o) > 2 and o[2] != "0"


SPEC = C08()
