"""C13 -- the token sequence (and each token's location) is invariant under whitespace / comment layout.

Ops (coq/Extract/OpsLex.v, harness/a1h/src/lex.rs):
  3001 <code point>...                      tokenize the text
  3002 k <k opaque ints> <code point>...     the same on the text after the k-int prefix; the prefix is the
                                             layout's metadata for this file's oracle:  ntok (offset len)*

The oracle does not use the model: it knows which token list was printed and at which character offset
each token was put (recorded by the printer while rendering), computes (line, column) of those offsets
from the text alone (line = 1 + number of LF before the offset, column = 1 + number of characters since
the last LF) and demands exactly these tokens at exactly these places.
"""
from vlib import Spec

SEPARATORS = ":;=(){}.,[]'\""          # parse/tokenizer.rs: the chars that become Token::Separator

MODULES = [
    # 0 plain SEQUENCE / OPTIONAL / DEFAULT
    """Basic DEFINITIONS AUTOMATIC TAGS ::= BEGIN
       Person ::= SEQUENCE { name UTF8String , age INTEGER ( 0 .. 150 ) OPTIONAL , married BOOLEAN DEFAULT FALSE }
       END""",
    # 1 CHOICE with extension marker
    """Choices DEFINITIONS ::= BEGIN
       Shape ::= CHOICE { circle Circle , square [ 1 ] Square , ... , triangle NULL }
       Circle ::= INTEGER ( 1 .. MAX )
       Square ::= INTEGER ( MIN .. -1 )
       END""",
    # 2 ENUMERATED with numbers and extension
    """Enums DEFINITIONS ::= BEGIN
       Colour ::= ENUMERATED { red ( 0 ) , green ( 1 ) , blue ( 2 ) , ... , dark-red ( 10 ) }
       Plain ::= ENUMERATED { a , b , c }
       END""",
    # 3 INTEGER ranges, negative numbers, named numbers
    """Ints DEFINITIONS ::= BEGIN
       Small ::= INTEGER ( -128 .. 127 )
       Ext ::= INTEGER ( 0 .. 255 , ... )
       Big ::= INTEGER ( 0 .. 18446744073709551615 )
       Named ::= INTEGER { low ( 1 ) , high ( 65535 ) } ( 1 .. 65535 )
       Const ::= INTEGER ( 42 )
       END""",
    # 4 SIZE constraints
    """Sizes DEFINITIONS ::= BEGIN
       Str ::= UTF8String ( SIZE ( 1 .. 64 ) )
       Oct ::= OCTET STRING ( SIZE ( 8 ) )
       Bits ::= BIT STRING { first ( 0 ) , last ( 15 ) } ( SIZE ( 16 , ... ) )
       List ::= SEQUENCE ( SIZE ( 0 .. 10 ) ) OF INTEGER ( 0 .. 9 )
       Many ::= SEQUENCE SIZE ( 1 .. MAX ) OF Str
       END""",
    # 5 tags of all classes, explicit / implicit
    """Tags DEFINITIONS EXPLICIT TAGS ::= BEGIN
       T ::= [ APPLICATION 3 ] SEQUENCE { a [ 0 ] IMPLICIT INTEGER , b [ 1 ] EXPLICIT BOOLEAN , c [ PRIVATE 9 ] NULL , d [ UNIVERSAL 29 ] IA5String }
       END""",
    # 6 DEFAULT values of several kinds
    """Defaults DEFINITIONS AUTOMATIC TAGS ::= BEGIN
       D ::= SEQUENCE { i INTEGER DEFAULT -5 , s UTF8String DEFAULT "abc" , o OCTET STRING DEFAULT 'DEADbeef'H , b BIT STRING DEFAULT '0101'B , e Colour DEFAULT red , r INTEGER ( 0 .. 9 ) DEFAULT some-value }
       Colour ::= ENUMERATED { red , green }
       some-value INTEGER ::= 7
       END""",
    # 7 IMPORTS / EXPORTS
    """Importer DEFINITIONS AUTOMATIC TAGS ::= BEGIN
       EXPORTS Thing , Other ;
       IMPORTS Person , Shape FROM Basic Colour FROM Enums { iso standard 1234 enums ( 2 ) } ;
       Thing ::= SEQUENCE { p Person , s Shape OPTIONAL }
       Other ::= SET OF Colour
       END""",
    # 8 module with OID header
    """Oid { iso ( 1 ) org ( 3 ) dod ( 6 ) internet ( 1 ) 4 5 } DEFINITIONS AUTOMATIC TAGS ::= BEGIN
       id-root OBJECT IDENTIFIER ::= { iso standard 8571 }
       id-sub OBJECT IDENTIFIER ::= { id-root sub ( 3 ) 7 }
       END""",
    # 9 value assignments
    """Values DEFINITIONS ::= BEGIN
       max-users INTEGER ::= 100
       min-temp INTEGER ::= -40
       flag BOOLEAN ::= TRUE
       greeting UTF8String ::= "hello"
       mask OCTET STRING ::= 'FF00'H
       Users ::= INTEGER ( 0 .. max-users )
       END""",
    # 10 nested SEQUENCE / SET / SEQUENCE OF
    """Nested DEFINITIONS AUTOMATIC TAGS ::= BEGIN
       Outer ::= SEQUENCE { inner SEQUENCE { x INTEGER , y INTEGER } , list SEQUENCE OF SEQUENCE { k UTF8String , v OCTET STRING } , set SET { a BOOLEAN , b NULL } OPTIONAL }
       END""",
    # 11 extensible SEQUENCE with addition groups
    """Extensible DEFINITIONS AUTOMATIC TAGS ::= BEGIN
       V ::= SEQUENCE { a INTEGER , ... , [[ b BOOLEAN , c NULL ]] , d UTF8String OPTIONAL }
       W ::= SEQUENCE { a INTEGER ( 0 .. 7 ) , ... }
       END""",
    # 12 string types
    """Strings DEFINITIONS ::= BEGIN
       S ::= SEQUENCE { a IA5String , b NumericString ( SIZE ( 4 ) ) , c PrintableString , d VisibleString , e UTF8String ( SIZE ( 0 .. 255 ) ) }
       END""",
    # 13 WITH COMPONENTS / inner constraints
    """Inner DEFINITIONS AUTOMATIC TAGS ::= BEGIN
       Base ::= SEQUENCE { a INTEGER OPTIONAL , b BOOLEAN OPTIONAL }
       Derived ::= Base ( WITH COMPONENTS { ... , a PRESENT , b ABSENT } )
       END""",
    # 14 odd but legal-for-the-tokenizer text items: '-', '/', '*' inside items, non-ASCII letters
    """Odd DEFINITIONS ::= BEGIN
       a-b-c ::= a/b ( x*y .. -1-2 ) * /x *y <z> a|b & @ !x été 中文
       END""",
    # 15 a tiny one and (16) the empty token list
    """M DEFINITIONS ::= BEGIN END""",
    "",
]


def ptokens(text):
    """independent splitter for the pool texts: items are separated by blanks; separator chars stand alone."""
    out = []
    for word in text.split():
        cur = ""
        for ch in word:
            if ch in SEPARATORS:
                if cur:
                    out.append(cur)
                    cur = ""
                out.append(ch)
            else:
                cur += ch
        if cur:
            out.append(cur)
    return out


POOL = [ptokens(m) for m in MODULES]
for _toks in POOL:
    for _t in _toks:
        assert "--" not in _t and "/*" not in _t and not _t.endswith("-") and _t


def is_sep(tok):
    return len(tok) == 1 and tok in SEPARATORS


# compound lexical items of X.680 that the tokenizer sees as several separator tokens / a quoted string
def glued(toks, i):
    """True when tokens i and i+1 belong to one X.680 lexical item ('::=', '..', '...', '[[', ']]', quoted strings)."""
    a, b = toks[i], toks[i + 1]
    if a == ":" and b in ":=":
        return True
    if a == "." and b == ".":
        return True
    if (a == "[" and b == "[") or (a == "]" and b == "]"):
        return True
    return False


COMMENT_ALPHABET = "abcxyzAZ09 _,;:=(){}[].'\"<>|&!@-\t" + "é中"


def comment_chars(rng, n, allow_nl):
    out = []
    for _ in range(n):
        k = rng.random()
        if k < 0.22:
            out.append(rng.choice("*/"))          # '*' and '/' are ordinary comment content ...
        elif allow_nl and k < 0.25:
            out.append(rng.choice(["\n", "\r\n"]))
        elif k < 0.29:
            out.append("--")
        elif k < 0.32:
            out.append("\r")                      # a lone CR inside a comment: one more character of its line
        else:
            out.append(rng.choice(COMMENT_ALPHABET))
    return out


def keep_content(flat):
    """flat = [(char, is_delimiter_char)]: the class proved in Front/LexProofs.v (body_ok / cchar_ok): every
    character is comment content, except that a content '*' directly in front of a '/' and a content '/'
    directly in front of a '*' are not content but (read from left to right, as X.680 12.6.4 is) the delimiters
    "*/" and "/*".  Only those two situations are rewritten; '**/', '/*/', '/***/', '//*', '*/*' all stay."""
    out = []
    for j, (ch, fixed) in enumerate(flat):
        if not fixed and ch in "*/":
            nxt = flat[j + 1][0] if j + 1 < len(flat) else ""
            if (ch == "*" and nxt == "/") or (ch == "/" and nxt == "*"):
                ch = "x"
        out.append(ch)
    return "".join(out)


def block_comment(rng, depth, allow_nl):
    """/* ... */ with nesting up to `depth` more levels; the text is one balanced X.680 12.6.4 comment."""
    parts = ["/*"]
    for _ in range(rng.randrange(0, 4)):
        if depth > 0 and rng.random() < 0.4:
            parts.append(block_comment(rng, depth - 1, allow_nl))
        else:
            parts += comment_chars(rng, rng.randrange(0, 6), allow_nl)
    parts.append("*/")
    flat = []
    for i, p in enumerate(parts):
        if (p in ("/*", "*/") and i in (0, len(parts) - 1)) or (p.startswith("/*") and len(p) > 2):
            flat += [(ch, True) for ch in p]          # the delimiters; a nested comment (already in the class)
        else:
            flat += [(ch, False) for ch in p]
    return keep_content(flat)


def dd_body(rng):
    """content c of a comment "--" c "--" (X.680 12.6.3): no line end, no "--" inside, and c + "--" must have
    its first "--" at the end (so c does not end in '-')"""
    body = "".join(rng.choice(COMMENT_ALPHABET + "*/") for _ in range(rng.randrange(0, 8)))
    while "--" in body:
        body = body.replace("--", "-x")
    if body.endswith("-"):
        body += rng.choice("x *")
    return body


def line_comment(rng):
    n = rng.randrange(0, 8)
    body = "".join(rng.choice(COMMENT_ALPHABET + "*/") for _ in range(n))
    while "--" in body:
        body = body.replace("--", "-x")
    if rng.random() < 0.15:
        body += rng.choice(["/*", "*/", "/* x */"])
    plain = "--" + body + rng.choice(["\n", "\n", "\r\n"])
    if rng.random() < 0.7:
        return plain
    # "--" c "--": X.680 ends the comment at the second "--", the crate skips the rest of the line; the two
    # readings coincide (and only then is the layout in the proved class) when the rest of the line holds
    # nothing but blanks, further such comments and block comments without a line end, and the line is ended
    # inside this gap (by a line end or by an ordinary line comment)
    out = "--" + dd_body(rng) + "--"
    for _ in range(rng.randrange(0, 4)):
        k = rng.random()
        if k < 0.35:
            out += " "
        elif k < 0.5:
            out += "\t"
        elif k < 0.6:
            out += "\r"
        elif k < 0.8:
            out += "--" + dd_body(rng) + "--"
        else:
            out += block_comment(rng, rng.randrange(0, 3), False)
    return out + rng.choice(["\n", "\r\n", plain])


def gap_item(rng, kind, allow_nl=True):
    if kind == 0:
        return " "
    if kind == 1:
        return "\t"
    if kind == 2:
        return "\r\n"
    if kind == 3:
        return "\n"
    if kind == 4:
        return line_comment(rng)
    if kind == 5:
        return block_comment(rng, 0, allow_nl and rng.random() < 0.3)
    if kind == 7:
        return "\r"                               # a lone CR (a following LF item makes it CR LF): a blank
    return block_comment(rng, rng.randrange(1, 4), allow_nl and rng.random() < 0.3)


def flushes(item):
    """does this gap item contain white-space / a line end outside or inside a comment at top level?
    (every item except a block comment written on one line)"""
    return not item.startswith("/*") or "\n" in item


def multi_line_block(rng):
    """a balanced block comment (X.680 reading) that certainly contains a LF"""
    flat = [("/", True), ("*", True)]
    flat += [(ch, False) for p in comment_chars(rng, rng.randrange(0, 4), True) for ch in p]
    flat += [("\n", False)]
    flat += [(ch, False) for p in comment_chars(rng, rng.randrange(0, 4), True) for ch in p]
    flat += [("*", True), ("/", True)]
    return keep_content(flat)


def hazard_gap(rng, kind):
    """a gap (in X.680's reading) on which the crate is known NOT to be layout-invariant:
    kind 'dd' (finding F13-1): a comment "--" c "--" followed on the same line by the next lexical item or by a
                block comment that goes on in the next line (the crate skips the rest of the line);
    kind 'cr' (finding F13-2): a comment "--" c ended by a lone CR, the next item before the next LF."""
    pre = "".join(gap_item(rng, rng.choice([0, 1, 3, 4, 5, 7])) for _ in range(rng.randrange(0, 2)))
    if kind == "dd":
        out = pre + "--" + dd_body(rng) + "--"
        for _ in range(rng.randrange(0, 3)):
            k = rng.random()
            out += " " if k < 0.4 else ("\t" if k < 0.55 else ("--" + dd_body(rng) + "--" if k < 0.8 else block_comment(rng, 0, False)))
        if rng.random() < 0.3:
            out += multi_line_block(rng) + rng.choice(["", " ", "\n"])
        return out
    body = "".join(rng.choice(COMMENT_ALPHABET + "*/") for _ in range(rng.randrange(0, 8)))
    while "--" in body:
        body = body.replace("--", "-x")
    return pre + "--" + body + "\r" + "".join(rng.choice(" \t") for _ in range(rng.randrange(0, 3)))


def render(rng, toks, comment_only_ok, split_compound, dense, hazard=None):
    """token-level printer: returns (text, [(offset, len)]); hazard = None | 'dd' | 'cr': one boundary in front of a
    token gets a hazard_gap (a layout OUTSIDE the proved class, inside the property's quantifier)"""
    text = []
    n = 0
    meta = []
    hz = rng.randrange(0, len(toks)) if hazard and toks else -1

    def gap(between_texts, may_be_empty):
        r = rng.random()
        if may_be_empty and r < (0.5 if dense else 0.25):
            return ""
        k = 1 if r < 0.7 else (2 if r < 0.9 else 3)
        items = [gap_item(rng, rng.choice([0, 0, 0, 1, 2, 3, 3, 4, 4, 5, 5, 6, 6, 7])) for _ in range(k)]
        if between_texts and not comment_only_ok and not any(flushes(it) for it in items):
            items.insert(rng.randrange(0, len(items) + 1), gap_item(rng, rng.choice([0, 1, 2, 3, 4, 7])))
        return "".join(items)

    g = hazard_gap(rng, hazard) if hz == 0 else gap(False, True)
    text.append(g)
    n += len(g)
    for i, t in enumerate(toks):
        meta.append((n, len(t)))
        text.append(t)
        n += len(t)
        if i + 1 == hz:
            g = hazard_gap(rng, hazard)
        elif i + 1 < len(toks):
            both_text = not is_sep(t) and not is_sep(toks[i + 1])
            if glued(toks, i) and not split_compound:
                g = ""
            else:
                g = gap(both_text, not both_text)
        else:
            g = gap(False, True)
        text.append(g)
        n += len(g)
    return "".join(text), meta


def case_3002(text, meta):
    pre = [len(meta)]
    for off, ln in meta:
        pre += [off, ln]
    return "3002 %d %s %s" % (len(pre), " ".join(map(str, pre)), " ".join(str(ord(c)) for c in text))


def only_block_comments(g):
    """g is a non-empty concatenation of balanced block comments without any line end"""
    i = 0
    depth = 0
    if not g:
        return False
    while i < len(g):
        if g.startswith("/*", i):
            depth += 1
            i += 2
        elif depth > 0 and g.startswith("*/", i):
            depth -= 1
            i += 2
        elif depth > 0 and g[i] != "\n":
            i += 1
        else:
            return False
    return depth == 0


def position(text, off):
    line = text.count("\n", 0, off) + 1
    last = text.rfind("\n", 0, off)
    return line, off - last          # last = -1 when on the first line: column = off + 1


def is_control(ch):
    return ord(ch) < 32 or 127 <= ord(ch) < 160


def ref_lex(text, dd_closes, cr_ends):
    """clause-12 lexer over this check's notion of items (separator characters; runs of other visible characters),
    used ONLY to name a failure.  dd_closes: a "--" comment ends at the next "--" (X.680 12.6.3) / runs to the line
    end; cr_ends: a lone CR is a line end for a "--" comment (X.680 12.1.6) / is not.  (True, True) is X.680.
    -> (tokens [(kind, line, col, str)], events) or None; events = closes 'dd'/'cr' (offset behind the comment),
    'tok' (offset), 'blk' (start, end)"""
    toks, ev = [], []
    cur = None
    i, n = 0, len(text)

    def flush():
        nonlocal cur
        if cur is not None:
            toks.append((0,) + position(text, cur[0]) + (cur[1],))
            cur = None

    while i < n:
        ch = text[i]
        if text.startswith("--", i):
            flush()
            j = i + 2
            while j < n and text[j] != "\n":
                if text[j] == "\r" and not text.startswith("\r\n", j) and cr_ends:
                    ev.append(("cr", j))
                    break
                if dd_closes and text.startswith("--", j):
                    j += 2
                    ev.append(("dd", j))
                    break
                j += 1
            i = j
        elif text.startswith("/*", i):
            flush()
            depth, j = 1, i + 2
            while depth > 0:
                if j >= n:
                    return None
                if text.startswith("*/", j):
                    depth -= 1
                    j += 2
                elif text.startswith("/*", j):
                    depth += 1
                    j += 2
                else:
                    j += 1
            ev.append(("blk", i, j))
            i = j
        elif ch in SEPARATORS:
            flush()
            ev.append(("tok", i))
            toks.append((1,) + position(text, i) + (ch,))
            i += 1
        elif ch in " \t\r\n":
            flush()
            i += 1
        elif is_control(ch):
            return None
        else:
            if cur is None:
                cur = [i, ""]
                ev.append(("tok", i))
            cur[1] += ch
            i += 1
    flush()
    return toks, ev


def deviation_present(text, ev, kind):
    """behind a comment closed by the second "--" (kind 'dd') / by a lone CR (kind 'cr') and before the next LF
    there is a lexical item or the beginning of a block comment that goes on behind that LF"""
    for e in ev:
        if e[0] != kind:
            continue
        lf = text.find("\n", e[1])
        lf = len(text) if lf < 0 else lf
        for f in ev:
            if f[0] == "tok" and e[1] <= f[1] < lf:
                return True
            if f[0] == "blk" and e[1] <= f[1] < lf < f[2]:
                return True
    return False


DD_CLASS = "dashdash_does_not_close_line_comment"
CR_CLASS = "lone_cr_does_not_end_line_comment"
DD_TEXT = "the comment \"--\" c \"--\" is not ended by its second \"--\": the rest of the line (an item, or the start of a block comment) is skipped"
CR_TEXT = "a lone CR does not end a \"--\" comment: the items between it and the next LF are skipped"


def known_deviation(text, expected, got):
    """name the failure if it is exactly finding F13-1 and/or F13-2: the layout is well formed in X.680's reading,
    shows the situation (F13-1: a comment closed by its second "--", F13-2: a "--" comment closed by a lone CR, in
    both cases with an item or the start of a multi-line block comment before the next LF), and the crate's answer
    is precisely the 'every "--" comment runs to the LF' reading.  Both situations in one layout: both classes."""
    x = ref_lex(text, True, True)
    if x is None or x[0] != expected:
        return None
    c = ref_lex(text, False, False)
    if c is None or c[0] != got:
        return None
    res = []
    if deviation_present(text, x[1], "dd"):
        res.append((DD_CLASS, DD_TEXT))
    if deviation_present(text, x[1], "cr"):
        res.append((CR_CLASS, CR_TEXT))
    return None if not res else (res[0] if len(res) == 1 else res)


def decode_out(o):
    """'0 n (kind line col len codes..)*' -> [(kind, line, col, str)]"""
    toks = []
    i = 2
    for _ in range(o[1]):
        kind, line, col, ln = o[i:i + 4]
        toks.append((kind, line, col, "".join(chr(c) for c in o[i + 4:i + 4 + ln])))
        i += 4 + ln
    return toks


# ---------------------------------------------------------------------------------------------
# structured layouts inside the domain of the Coq theorems (Front/LexProofs.v): the same layout is
# (a) rendered and positioned here, (b) rendered and positioned by the Coq specification (op 3003,
# model only), (c) tokenized by the crate (op 3002 in the ordinary stream)
# ---------------------------------------------------------------------------------------------
BODY_ALPHABET = "abcxyzAZ09 _,;:=(){}[].'\"<>|&!@-\t" + "é中"


def s_body_raw(rng, depth, allow_nl):
    out = []
    for _ in range(rng.randrange(0, 6)):
        k = rng.random()
        if k < 0.12:
            out.append(rng.choice([-1, -2]) if allow_nl else 32)
        elif k < 0.3 and depth > 0:
            out += [-3] + s_body_raw(rng, depth - 1, allow_nl) + [-4]
        elif k < 0.55:
            out.append(ord(rng.choice("*/")))
        elif k < 0.6:
            out.append(13)
        else:
            out.append(ord(rng.choice(BODY_ALPHABET)))
    return out


FIRST_CHAR = {-1: 10, -2: 13, -3: 47, -4: 42}


def s_body(rng, depth, allow_nl=True):
    """a body inside LexProofs.body_ok: any content, but a content '*' is not directly followed by '/' and a
    content '/' not directly followed by '*' (next = first character of the next item, or the '*' of the final "*/")"""
    b = s_body_raw(rng, depth, allow_nl)
    for j, c in enumerate(b):
        nxt = 42 if j + 1 == len(b) else FIRST_CHAR.get(b[j + 1], b[j + 1])
        if (c == 42 and nxt == 47) or (c == 47 and nxt == 42):
            b[j] = 120
    return b


def s_dd(rng):
    c = dd_body(rng)
    return (-28,) + tuple(ord(ch) for ch in c)


def s_line(rng):
    body = [ord(rng.choice(BODY_ALPHABET + "*/")) for _ in range(rng.randrange(0, 8))]
    return (rng.choice([-24, -24, -26]),) + tuple(body)


def s_item(rng):
    """-> a list of gap items (one, except for a "--" c "--" comment, which brings the rest of its line)"""
    k = rng.choice([0, 0, 0, 1, 2, 3, 3, 4, 4, 5, 5, 6, 6, 7, 8])
    if k == 0:
        return [(-20,)]
    if k == 1:
        return [(-21,)]
    if k == 2:
        return [(-22,)]
    if k == 3:
        return [(-23,)]
    if k == 4:
        return [s_line(rng)]
    if k == 7:
        return [(-27,)]
    if k == 8:
        out = [s_dd(rng)]
        for _ in range(rng.randrange(0, 4)):
            j = rng.random()
            if j < 0.35:
                out.append((-20,))
            elif j < 0.5:
                out.append((-21,))
            elif j < 0.6:
                out.append((-27,))
            elif j < 0.8:
                out.append(s_dd(rng))
            else:
                out.append((-25,) + tuple(s_body(rng, rng.randrange(0, 3), allow_nl=False)))
        out.append(rng.choice([(-22,), (-23,), s_line(rng)]))
        return out
    return [(-25,) + tuple(s_body(rng, 0 if k == 5 else rng.randrange(1, 4)))]


def s_item_text(it):
    k = it[0]
    if k in (-20, -21, -22, -23):
        return {-20: " ", -21: "\t", -22: "\r\n", -23: "\n"}[k]
    if k in (-24, -26):
        return "--" + "".join(chr(c) for c in it[1:]) + ("\n" if k == -24 else "\r\n")
    if k == -27:
        return "\r"
    if k == -28:
        return "--" + "".join(chr(c) for c in it[1:]) + "--"
    m = {-1: "\n", -2: "\r\n", -3: "/*", -4: "*/"}
    return "/*" + "".join(m[c] if c < 0 else chr(c) for c in it[1:]) + "*/"


def s_item_flushes(it):
    return it[0] != -25 or -1 in it[1:] or -2 in it[1:]


def s_layout(rng, toks, comment_only_ok):
    """-> (events for op 3003, text, meta, known)"""
    ev = []
    text = ""
    meta = []
    known = False

    def gap(between_texts):
        nonlocal text, known
        r = rng.random()
        items = []
        if not (r < 0.3 and not between_texts):
            items = [it for _ in range(1 if r < 0.7 else (2 if r < 0.9 else 3)) for it in s_item(rng)]
            if between_texts and not comment_only_ok and not any(s_item_flushes(i) for i in items):
                items.insert(rng.choice([0, len(items)]), (rng.choice([-20, -21, -22, -23, -27]),))
        if between_texts and items and not any(s_item_flushes(i) for i in items):
            known = True
        for it in items:
            ev.extend(it)
            text += s_item_text(it)
        ev.append(-10)

    gap(False)
    for i, t in enumerate(toks):
        meta.append((len(text), len(t)))
        if is_sep(t):
            ev += [-11, ord(t)]
        else:
            ev += [-12] + [ord(c) for c in t]
        text += t
        gap(i + 1 < len(toks) and not is_sep(t) and not is_sep(toks[i + 1]))
    return ev, text, meta, known


MALFORMED_ALPHABET = ["a", "B", "1", "-", "-", "--", "/", "*", "/*", "*/", " ", "\t", "\n", "\r", "\r\n", ":", "=", "{", "}",
                      ".", ",", "'", "\"", "(", ")", "\x0b", "\x0c", "\x00", "\x7f", "\u0085", " ", " ",
                      "é", "\U0001F600", "x-y", "SEQUENCE", "OF"]


class C13(Spec):
    prop = "C13"
    coq_targets = ["Props/C13.vo"]
    prop_module = "Props.C13"
    theorems = ["C13_tokenize", "C13_layout_invariant", "C13_locations", "C13_positions_intrinsic",
                "C13_fixed_block_comment_gap", "C13_nonvacuous", "C13_nonvacuous_star_slash_dashdash_cr",
                "C13_refuted_dashdash_closes_line_comment", "C13_refuted_cr_ends_line_comment",
                "C13_refuted_vt_ff_white_space", "C13_lone_cr_is_a_blank"]
    xcheck_n = 100
    builds = [("default", "dev"), ("default", "release")]
    level_text = ("Theorems about a hand-written Gallina model of Tokenizer::parse / Token::append / str::lines: for every "
                  "token list and every lex_safe layout (gaps from space, tab, CRLF, LF, lone CR, line comments ended by a line end "
                  "or -- with a comment-only rest of the line -- by a second '--', possibly nested and multi-line block "
                  "comments whose content is any character, '*', '/' and CR included), the token contents equal the printed list and every "
                  "location is the line/column where the item starts; the model is tied to the crate by differential "
                  "execution on both profiles, and the property is evaluated on the crate's answers by an independent oracle.")
    rule = ("token-level printer over 17 token lists (ASN.1 modules: SEQUENCE/CHOICE/ENUMERATED/INTEGER ranges/SIZE/tags/DEFAULT/"
            "IMPORTS/OIDs/value assignments/odd items) choosing at every token boundary a gap of 0-3 items from {space, tab, CRLF, LF, "
            "lone CR, '-- c LF|CRLF', '-- c --' followed by blanks/comments up to the line end, '/* c */' (optionally multi-line, "
            "c with '*', '/', '--', lone CR as content: everything that does not read as a delimiter from left to right), "
            "nested block comments up to depth 4}; empty gaps only next to a separator; 4% + 4% of the layouts put one "
            "'-- c --' comment directly in front of an item / a multi-line block comment on the same line, or end one '--' comment "
            "by a lone CR (known findings F13-1, F13-2: named by the oracle only when the crate's answer is exactly the "
            "'comment runs to the LF' reading); "
            "half of the layouts may separate two text items by block comments only; 1 000 (thorough 20 000) further layouts "
            "drawn inside the domain of the Coq theorems are in addition rendered and positioned by the Coq specification itself "
            "(model-only op 3003) and compared with the printer; plus a malformed stream "
            "(random lexical soup: unterminated/unbalanced comments, '--' inside comments, lone CR, control and non-ASCII "
            "characters, adjacent items) used for model/implementation agreement only. non-trivial = at least two tokens "
            "returned or the sanctioned panic; distinct = distinct case line")
    assumptions_text = ["str::lines as documented for rustc >= 1.70 (CR stripped only in front of LF)",
                        "64-bit usize; texts shorter than 2^31 nested comment levels (nest_lvl: i32)"]

    def gen(self, rng, tier):
        n_lay = 4000 if tier == "quick" else 200000     # + n_str: quick = 5 000 lex_safe layouts
        n_mal = 1000 if tier == "quick" else 40000
        n_str = 1000 if tier == "quick" else 20000
        out = []
        # layouts inside the domain of the theorems: also shown to the Coq specification (extra_checks)
        self.structured = []
        for i in range(n_str):
            toks = POOL[i % len(POOL)]
            if rng.random() < 0.5 and len(toks) > 6:
                a = rng.randrange(0, len(toks) - 3)
                toks = toks[a:a + rng.randrange(2, 12)]
            ev, text, meta, known = s_layout(rng, toks, comment_only_ok=rng.random() < 0.5)
            exp = []
            for off, ln in meta:
                t = text[off:off + ln]
                l, c = position(text, off)
                exp += [1 if is_sep(t) else 0, l, c, ln] + [ord(ch) for ch in t]
            want = [0, 1, len(text)] + [ord(ch) for ch in text] + [len(meta)] + exp
            self.structured.append(("3003 " + " ".join(map(str, ev)), " ".join(map(str, want))))
            out.append(case_3002(text, meta))
        # the witness of the repaired defect (58b7ab0) and its neighbours first
        for txt, toks in (("SEQUENCE/* c */OF", ["SEQUENCE", "OF"]), ("SEQUENCE /* c */OF", ["SEQUENCE", "OF"]),
                          ("SEQUENCE/* c\n */OF", ["SEQUENCE", "OF"]), ("a/**/b", ["a", "b"]), ("a/* /* */ */b", ["a", "b"]),
                          (",/* c */OF", [",", "OF"]), ("OF/* c */,", ["OF", ","]),
                          # '*' and '/' as comment content; "/*/" opens and has content '/'; "/**/" is empty
                          ("P/* a * b / c **/Q", ["P", "Q"]), ("P/*/ x */Q", ["P", "Q"]), ("P/***/Q/** doc **/R", ["P", "Q", "R"]),
                          ("P/*/**/*/Q", ["P", "Q"]), ("P/* //* x */* */Q", ["P", "Q"]), ("P/*\r*\r\n/\r*/Q", ["P", "Q"]),
                          # "--" c "--" with a comment-only rest of the line; lone CR as a blank
                          ("P -- c -- \nQ", ["P", "Q"]), ("P-- c ---- d --/* x */\t-- e\r\nQ", ["P", "Q"]), ("P\rQ\r\rR\r", ["P", "Q", "R"]),
                          ("P--c--\r\nQ", ["P", "Q"]),
                          # known findings F13-1 ("--" c "--" does not end the comment) and F13-2 (nor does a lone CR)
                          ("P -- c -- Q", ["P", "Q"]), ("P -- c -- /* x\n y */ Q", ["P", "Q"]), ("P,-- a ---- b --Q\nR", ["P", ",", "Q", "R"]),
                          ("P -- c\rQ\n", ["P", "Q"]), ("P --\r,Q\nR", ["P", ",", "Q", "R"])):
            meta = []
            at = 0
            for t in toks:
                at = txt.index(t, at)
                meta.append((at, len(t)))
                at += len(t)
            out.append(case_3002(txt, meta))
        for i in range(n_lay):
            toks = POOL[i % len(POOL)] if rng.random() < 0.8 else rng.choice(POOL)
            if rng.random() < 0.3 and len(toks) > 6:
                a = rng.randrange(0, len(toks) - 3)
                toks = toks[a:a + rng.randrange(2, 12)]
            hz = rng.random()        # 4% + 4% of the layouts carry one of the two known deviations (F13-1, F13-2)
            hazard = "dd" if hz < 0.04 else ("cr" if hz < 0.08 else None)
            for attempt in range(6):
                text, meta = render(rng, toks, comment_only_ok=rng.random() < 0.5,
                                    split_compound=rng.random() < 0.5, dense=rng.random() < 0.3,
                                    hazard=hazard if attempt < 5 else None)
                # keep the two families narrow: when the crate skips the rest of such a line, what is left of a
                # multi-line block comment ("... */" on the next line) can pair up to a "/*" that is never closed
                # (e.g. "*/*/"): the answer is then the unclosed-comment panic or a silently swallowed rest --
                # a consequence of the same deviation, but not the plain 'comment runs to the LF' token list that
                # the oracle names.  Such draws are replaced.
                if hazard is None or attempt == 5 or ref_lex(text, False, False) is not None:
                    break
            out.append(case_3002(text, meta))
        for _ in range(n_mal):
            k = rng.random()
            if k < 0.5:
                s = "".join(rng.choice(MALFORMED_ALPHABET) for _ in range(rng.randrange(0, 25)))
            else:
                toks = rng.choice(POOL)
                text, _ = render(rng, toks[:rng.randrange(0, 15)], True, True, True)
                # mutate: cut, delete or insert lexical fragments
                s = text
                for _ in range(rng.randrange(1, 4)):
                    if not s:
                        break
                    p = rng.randrange(0, len(s) + 1)
                    m = rng.random()
                    if m < 0.3:
                        s = s[:p]
                    elif m < 0.6:
                        s = s[:p] + s[p + rng.randrange(1, 4):]
                    else:
                        s = s[:p] + rng.choice(MALFORMED_ALPHABET) + s[p:]
            out.append("3001 " + " ".join(str(ord(c)) for c in s))
        return out

    def oracle(self, line, out, build):
        a = list(map(int, line.split()))
        if a[0] != 3002:
            return None
        o = list(map(int, out.split()))
        k = a[1]
        pre = a[2:2 + k]
        text = "".join(chr(c) for c in a[2 + k:])
        meta = [(pre[1 + 2 * i], pre[2 + 2 * i]) for i in range(pre[0])]
        expected = []
        for off, ln in meta:
            s = text[off:off + ln]
            line_no, col = position(text, off)
            expected.append((1 if is_sep(s) else 0, line_no, col, s))
        if o[:1] != [0]:
            return ("lex_panic", "well-formed layout not tokenized: %s" % out[:60])
        got = decode_out(o)
        if got == expected:
            return None
        kd = known_deviation(text, expected, got)
        if kd is not None:
            return kd
        # name the failure: text items separated by block comments only glued into one token
        # (the defect repaired by 58b7ab0; not a listed finding -- an ordinary violation)
        merged = []
        hit = False
        for i, e in enumerate(expected):
            if merged and e[0] == 0 and merged[-1][0] == 0 and i > 0:
                prev_end = meta[i - 1][0] + meta[i - 1][1]
                if only_block_comments(text[prev_end:meta[i][0]]):
                    p = merged[-1]
                    merged[-1] = (0, p[1], p[2], p[3] + e[3])
                    hit = True
                    continue
            merged.append(e)
        if hit and got == merged:
            return ("block_comment_only_gap",
                    "text items separated only by block comment(s) on one line are glued into one token")
        if [(g[0], g[3]) for g in got] != [(e[0], e[3]) for e in expected]:
            bad = next((i for i, (g, e) in enumerate(zip(got, expected)) if (g[0], g[3]) != (e[0], e[3])), min(len(got), len(expected)))
            return ("token_sequence", "token %d: got %s, printed %s (of %d/%d tokens)" %
                    (bad, got[bad][3] if bad < len(got) else None, expected[bad][3] if bad < len(expected) else None,
                     len(got), len(expected)))
        bad = next(i for i, (g, e) in enumerate(zip(got, expected)) if g != e)
        return ("location", "token %d %r reported at %s, starts at %s" % (bad, got[bad][3], got[bad][1:3], expected[bad][1:3]))

    def extra_checks(self, ctx):
        """the Coq specification (render, lex_safe, Known_C13, expect/positions) against this file's printer"""
        import vlib
        cases = getattr(self, "structured", [])
        if not cases:
            return
        got = vlib.run_model([c[0] for c in cases], mode="dev")
        bad = [(c[0], c[1], g) for c, g in zip(cases, got) if c[1] != g]
        ctx.setdefault("coverage_extra", {})["spec_vs_printer"] = {"cases": len(cases), "mismatches": len(bad)}
        if bad:
            ctx["violations"].append({"kind": "coq-spec-differs-from-printer", "case": bad[0][0][:2000],
                                      "python": bad[0][1][:2000], "coq": bad[0][2][:2000], "count": len(bad)})

    def nontrivial(self, line, out):
        o = out.split()
        return o[:1] == ["2"] or (o[:1] == ["0"] and int(o[1]) >= 2)


SPEC = C13()
