"""C13 -- the token sequence (and each token's location) is invariant under whitespace / comment layout.

Ops (coq/Extract/OpsLex.v, harness/a1h/src/lex.rs):
  3001 <code point>...                      tokenize the text
  3002 k <k opaque ints> <code point>...     the same on the text after the k-int prefix; the prefix is the
                                             layout's metadata for this file's oracle:  ntok (offset len)*

The oracle does not use the model: it knows which token list was printed and at which character offset
each token was put (recorded by the printer while rendering), computes (line, column) of those offsets
from the text alone (line = 1 + number of LF before the offset, column = 1 + number of characters since
the last LF) and demands exactly these tokens at exactly these places.
"""
from vlib import Spec

SEPARATORS = ":;=(){}.,[]'\""          # parse/tokenizer.rs: the chars that become Token::Separator

MODULES = [
    # 0 plain SEQUENCE / OPTIONAL / DEFAULT
    """Basic DEFINITIONS AUTOMATIC TAGS ::= BEGIN
       Person ::= SEQUENCE { name UTF8String , age INTEGER ( 0 .. 150 ) OPTIONAL , married BOOLEAN DEFAULT FALSE }
       END""",
    # 1 CHOICE with extension marker
    """Choices DEFINITIONS ::= BEGIN
       Shape ::= CHOICE { circle Circle , square [ 1 ] Square , ... , triangle NULL }
       Circle ::= INTEGER ( 1 .. MAX )
       Square ::= INTEGER ( MIN .. -1 )
       END""",
    # 2 ENUMERATED with numbers and extension
    """Enums DEFINITIONS ::= BEGIN
       Colour ::= ENUMERATED { red ( 0 ) , green ( 1 ) , blue ( 2 ) , ... , dark-red ( 10 ) }
       Plain ::= ENUMERATED { a , b , c }
       END""",
    # 3 INTEGER ranges, negative numbers, named numbers
    """Ints DEFINITIONS ::= BEGIN
       Small ::= INTEGER ( -128 .. 127 )
       Ext ::= INTEGER ( 0 .. 255 , ... )
       Big ::= INTEGER ( 0 .. 18446744073709551615 )
       Named ::= INTEGER { low ( 1 ) , high ( 65535 ) } ( 1 .. 65535 )
       Const ::= INTEGER ( 42 )
       END""",
    # 4 SIZE constraints
    """Sizes DEFINITIONS ::= BEGIN
       Str ::= UTF8String ( SIZE ( 1 .. 64 ) )
       Oct ::= OCTET STRING ( SIZE ( 8 ) )
       Bits ::= BIT STRING { first ( 0 ) , last ( 15 ) } ( SIZE ( 16 , ... ) )
       List ::= SEQUENCE ( SIZE ( 0 .. 10 ) ) OF INTEGER ( 0 .. 9 )
       Many ::= SEQUENCE SIZE ( 1 .. MAX ) OF Str
       END""",
    # 5 tags of all classes, explicit / implicit
    """Tags DEFINITIONS EXPLICIT TAGS ::= BEGIN
       T ::= [ APPLICATION 3 ] SEQUENCE { a [ 0 ] IMPLICIT INTEGER , b [ 1 ] EXPLICIT BOOLEAN , c [ PRIVATE 9 ] NULL , d [ UNIVERSAL 29 ] IA5String }
       END""",
    # 6 DEFAULT values of several kinds
    """Defaults DEFINITIONS AUTOMATIC TAGS ::= BEGIN
       D ::= SEQUENCE { i INTEGER DEFAULT -5 , s UTF8String DEFAULT "abc" , o OCTET STRING DEFAULT 'DEADbeef'H , b BIT STRING DEFAULT '0101'B , e Colour DEFAULT red , r INTEGER ( 0 .. 9 ) DEFAULT some-value }
       Colour ::= ENUMERATED { red , green }
       some-value INTEGER ::= 7
       END""",
    # 7 IMPORTS / EXPORTS
    """Importer DEFINITIONS AUTOMATIC TAGS ::= BEGIN
       EXPORTS Thing , Other ;
       IMPORTS Person , Shape FROM Basic Colour FROM Enums { iso standard 1234 enums ( 2 ) } ;
       Thing ::= SEQUENCE { p Person , s Shape OPTIONAL }
       Other ::= SET OF Colour
       END""",
    # 8 module with OID header
    """Oid { iso ( 1 ) org ( 3 ) dod ( 6 ) internet ( 1 ) 4 5 } DEFINITIONS AUTOMATIC TAGS ::= BEGIN
       id-root OBJECT IDENTIFIER ::= { iso standard 8571 }
       id-sub OBJECT IDENTIFIER ::= { id-root sub ( 3 ) 7 }
       END""",
    # 9 value assignments
    """Values DEFINITIONS ::= BEGIN
       max-users INTEGER ::= 100
       min-temp INTEGER ::= -40
       flag BOOLEAN ::= TRUE
       greeting UTF8String ::= "hello"
       mask OCTET STRING ::= 'FF00'H
       Users ::= INTEGER ( 0 .. max-users )
       END""",
    # 10 nested SEQUENCE / SET / SEQUENCE OF
    """Nested DEFINITIONS AUTOMATIC TAGS ::= BEGIN
       Outer ::= SEQUENCE { inner SEQUENCE { x INTEGER , y INTEGER } , list SEQUENCE OF SEQUENCE { k UTF8String , v OCTET STRING } , set SET { a BOOLEAN , b NULL } OPTIONAL }
       END""",
    # 11 extensible SEQUENCE with addition groups
    """Extensible DEFINITIONS AUTOMATIC TAGS ::= BEGIN
       V ::= SEQUENCE { a INTEGER , ... , [[ b BOOLEAN , c NULL ]] , d UTF8String OPTIONAL }
       W ::= SEQUENCE { a INTEGER ( 0 .. 7 ) , ... }
       END""",
    # 12 string types
    """Strings DEFINITIONS ::= BEGIN
       S ::= SEQUENCE { a IA5String , b NumericString ( SIZE ( 4 ) ) , c PrintableString , d VisibleString , e UTF8String ( SIZE ( 0 .. 255 ) ) }
       END""",
    # 13 WITH COMPONENTS / inner constraints
    """Inner DEFINITIONS AUTOMATIC TAGS ::= BEGIN
       Base ::= SEQUENCE { a INTEGER OPTIONAL , b BOOLEAN OPTIONAL }
       Derived ::= Base ( WITH COMPONENTS { ... , a PRESENT , b ABSENT } )
       END""",
    # 14 odd but legal-for-the-tokenizer text items: '-', '/', '*' inside items, non-ASCII letters
    """Odd DEFINITIONS ::= BEGIN
       a-b-c ::= a/b ( x*y .. -1-2 ) * /x *y <z> a|b & @ !x été 中文
       END""",
    # 15 a tiny one and (16) the empty token list
    """M DEFINITIONS ::= BEGIN END""",
    "",
]


def ptokens(text):
    """independent splitter for the pool texts: items are separated by blanks; separator chars stand alone."""
    out = []
    for word in text.split():
        cur = ""
        for ch in word:
            if ch in SEPARATORS:
                if cur:
                    out.append(cur)
                    cur = ""
                out.append(ch)
            else:
                cur += ch
        if cur:
            out.append(cur)
    return out


POOL = [ptokens(m) for m in MODULES]
for _toks in POOL:
    for _t in _toks:
        assert "--" not in _t and "/*" not in _t and not _t.endswith("-") and _t


def is_sep(tok):
    return len(tok) == 1 and tok in SEPARATORS


# compound lexical items of X.680 that the tokenizer sees as several separator tokens / a quoted string
def glued(toks, i):
    """True when tokens i and i+1 belong to one X.680 lexical item ('::=', '..', '...', '[[', ']]', quoted strings)."""
    a, b = toks[i], toks[i + 1]
    if a == ":" and b in ":=":
        return True
    if a == "." and b == ".":
        return True
    if (a == "[" and b == "[") or (a == "]" and b == "]"):
        return True
    return False


COMMENT_ALPHABET = "abcxyzAZ09 _,;:=(){}[].'\"<>|&!@-\t" + "é中"


def comment_chars(rng, n, allow_nl):
    out = []
    for _ in range(n):
        k = rng.random()
        if k < 0.10:
            out.append(rng.choice("*/"))
        elif allow_nl and k < 0.12:
            out.append(rng.choice(["\n", "\r\n"]))
        elif k < 0.16:
            out.append("--")
        else:
            out.append(rng.choice(COMMENT_ALPHABET))
    return out


def block_comment(rng, depth, allow_nl):
    """/* ... */ with nesting up to `depth` more levels; the text is one balanced X.680 12.6.4 comment."""
    parts = ["/*"]
    for _ in range(rng.randrange(0, 4)):
        if depth > 0 and rng.random() < 0.4:
            parts.append(block_comment(rng, depth - 1, allow_nl))
        else:
            parts += comment_chars(rng, rng.randrange(0, 6), allow_nl)
    parts.append("*/")
    # a '*' or '/' that is comment *content* must not combine with a neighbour into a delimiter
    flat = []
    for p in parts:
        if p in ("/*", "*/"):
            flat += [(p[0], True), (p[1], True)]
        elif p.startswith("/*") and len(p) > 2:
            flat += [(ch, True) for ch in p]          # nested comment already sanitised: leave untouched
        else:
            flat += [(ch, False) for ch in p]
    out = []
    for j, (ch, fixed) in enumerate(flat):
        if not fixed and ch in "*/":
            prev = out[-1] if out else ""
            nxt = flat[j + 1][0] if j + 1 < len(flat) else ""
            # '**/', '/***/' and '//*' are legal (a '*' before the closing delimiter, a '/' before a nested opener);
            # only the pairs '/*' and '*/' would create or destroy a delimiter
            if (prev == "/" and ch == "*") or (prev == "*" and ch == "/") or (ch == "/" and nxt == "*") or (ch == "*" and nxt == "/"):
                ch = "x"
        out.append(ch)
    return "".join(out)


def line_comment(rng):
    n = rng.randrange(0, 8)
    body = "".join(rng.choice(COMMENT_ALPHABET + "*/") for _ in range(n))
    while "--" in body:
        body = body.replace("--", "-x")
    if rng.random() < 0.15:
        body += rng.choice(["/*", "*/", "/* x */"])
    return "--" + body + rng.choice(["\n", "\n", "\r\n"])


def gap_item(rng, kind, allow_nl=True):
    if kind == 0:
        return " "
    if kind == 1:
        return "\t"
    if kind == 2:
        return "\r\n"
    if kind == 3:
        return "\n"
    if kind == 4:
        return line_comment(rng)
    if kind == 5:
        return block_comment(rng, 0, allow_nl and rng.random() < 0.3)
    return block_comment(rng, rng.randrange(1, 4), allow_nl and rng.random() < 0.3)


def flushes(item):
    """does this gap item contain white-space / a line end outside or inside a comment at top level?
    (every item except a block comment written on one line)"""
    return not item.startswith("/*") or "\n" in item


def render(rng, toks, comment_only_ok, split_compound, dense):
    """token-level printer: returns (text, [(offset, len)])"""
    text = []
    n = 0
    meta = []

    def gap(between_texts, may_be_empty):
        r = rng.random()
        if may_be_empty and r < (0.5 if dense else 0.25):
            return ""
        k = 1 if r < 0.7 else (2 if r < 0.9 else 3)
        items = [gap_item(rng, rng.choice([0, 0, 0, 1, 2, 3, 3, 4, 5, 6])) for _ in range(k)]
        if between_texts and not comment_only_ok and not any(flushes(it) for it in items):
            items.insert(rng.randrange(0, len(items) + 1), gap_item(rng, rng.choice([0, 1, 2, 3, 4])))
        return "".join(items)

    g = gap(False, True)
    text.append(g)
    n += len(g)
    for i, t in enumerate(toks):
        meta.append((n, len(t)))
        text.append(t)
        n += len(t)
        if i + 1 < len(toks):
            both_text = not is_sep(t) and not is_sep(toks[i + 1])
            if glued(toks, i) and not split_compound:
                g = ""
            else:
                g = gap(both_text, not both_text)
        else:
            g = gap(False, True)
        text.append(g)
        n += len(g)
    return "".join(text), meta


def case_3002(text, meta):
    pre = [len(meta)]
    for off, ln in meta:
        pre += [off, ln]
    return "3002 %d %s %s" % (len(pre), " ".join(map(str, pre)), " ".join(str(ord(c)) for c in text))


def only_block_comments(g):
    """g is a non-empty concatenation of balanced block comments without any line end"""
    i = 0
    depth = 0
    if not g:
        return False
    while i < len(g):
        if g.startswith("/*", i):
            depth += 1
            i += 2
        elif depth > 0 and g.startswith("*/", i):
            depth -= 1
            i += 2
        elif depth > 0 and g[i] != "\n":
            i += 1
        else:
            return False
    return depth == 0


def position(text, off):
    line = text.count("\n", 0, off) + 1
    last = text.rfind("\n", 0, off)
    return line, off - last          # last = -1 when on the first line: column = off + 1


def decode_out(o):
    """'0 n (kind line col len codes..)*' -> [(kind, line, col, str)]"""
    toks = []
    i = 2
    for _ in range(o[1]):
        kind, line, col, ln = o[i:i + 4]
        toks.append((kind, line, col, "".join(chr(c) for c in o[i + 4:i + 4 + ln])))
        i += 4 + ln
    return toks


# ---------------------------------------------------------------------------------------------
# structured layouts inside the domain of the Coq theorems (Front/LexProofs.v): the same layout is
# (a) rendered and positioned here, (b) rendered and positioned by the Coq specification (op 3003,
# model only), (c) tokenized by the crate (op 3002 in the ordinary stream)
# ---------------------------------------------------------------------------------------------
BODY_ALPHABET = "abcxyzAZ09 _,;:=(){}[].'\"<>|&!@-\t" + "é中"


def s_body(rng, depth):
    out = []
    for _ in range(rng.randrange(0, 5)):
        k = rng.random()
        if k < 0.12:
            out.append(rng.choice([-1, -2]))
        elif k < 0.3 and depth > 0:
            out += [-3] + s_body(rng, depth - 1) + [-4]
        else:
            out.append(ord(rng.choice(BODY_ALPHABET)))
    return out


def s_item(rng):
    k = rng.choice([0, 0, 0, 1, 2, 3, 3, 4, 5, 6])
    if k == 0:
        return (-20,)
    if k == 1:
        return (-21,)
    if k == 2:
        return (-22,)
    if k == 3:
        return (-23,)
    if k == 4:
        body = [ord(rng.choice(BODY_ALPHABET + "*/")) for _ in range(rng.randrange(0, 8))]
        return (rng.choice([-24, -24, -26]),) + tuple(body)
    return (-25,) + tuple(s_body(rng, 0 if k == 5 else rng.randrange(1, 4)))


def s_item_text(it):
    k = it[0]
    if k in (-20, -21, -22, -23):
        return {-20: " ", -21: "\t", -22: "\r\n", -23: "\n"}[k]
    if k in (-24, -26):
        return "--" + "".join(chr(c) for c in it[1:]) + ("\n" if k == -24 else "\r\n")
    m = {-1: "\n", -2: "\r\n", -3: "/*", -4: "*/"}
    return "/*" + "".join(m[c] if c < 0 else chr(c) for c in it[1:]) + "*/"


def s_item_flushes(it):
    return it[0] != -25 or -1 in it[1:] or -2 in it[1:]


def s_layout(rng, toks, comment_only_ok):
    """-> (events for op 3003, text, meta, known)"""
    ev = []
    text = ""
    meta = []
    known = False

    def gap(between_texts):
        nonlocal text, known
        r = rng.random()
        items = []
        if not (r < 0.3 and not between_texts):
            items = [s_item(rng) for _ in range(1 if r < 0.7 else (2 if r < 0.9 else 3))]
            if between_texts and not comment_only_ok and not any(s_item_flushes(i) for i in items):
                items.insert(rng.randrange(0, len(items) + 1), (rng.choice([-20, -21, -22, -23]),))
        if between_texts and items and not any(s_item_flushes(i) for i in items):
            known = True
        for it in items:
            ev.extend(it)
            text += s_item_text(it)
        ev.append(-10)

    gap(False)
    for i, t in enumerate(toks):
        meta.append((len(text), len(t)))
        if is_sep(t):
            ev += [-11, ord(t)]
        else:
            ev += [-12] + [ord(c) for c in t]
        text += t
        gap(i + 1 < len(toks) and not is_sep(t) and not is_sep(toks[i + 1]))
    return ev, text, meta, known


MALFORMED_ALPHABET = ["a", "B", "1", "-", "-", "--", "/", "*", "/*", "*/", " ", "\t", "\n", "\r", "\r\n", ":", "=", "{", "}",
                      ".", ",", "'", "\"", "(", ")", "\x0b", "\x0c", "\x00", "\x7f", "\u0085", " ", " ",
                      "é", "\U0001F600", "x-y", "SEQUENCE", "OF"]


class C13(Spec):
    prop = "C13"
    coq_targets = ["Props/C13.vo"]
    prop_module = "Props.C13"
    theorems = ["C13_tokenize", "C13_layout_invariant", "C13_locations", "C13_positions_intrinsic",
                "C13_fixed_block_comment_gap"]
    xcheck_n = 100
    builds = [("default", "dev"), ("default", "release")]
    level_text = ("Theorems about a hand-written Gallina model of Tokenizer::parse / Token::append / str::lines: for every "
                  "token list and every lex_safe layout (gaps from space, tab, CRLF, LF, line comments, possibly nested and "
                  "multi-line block comments), the token contents equal the printed list and every "
                  "location is the line/column where the item starts; the model is tied to the crate by differential "
                  "execution on both profiles, and the property is evaluated on the crate's answers by an independent oracle.")
    rule = ("token-level printer over 17 token lists (ASN.1 modules: SEQUENCE/CHOICE/ENUMERATED/INTEGER ranges/SIZE/tags/DEFAULT/"
            "IMPORTS/OIDs/value assignments/odd items) choosing at every token boundary a gap of 0-3 items from {space, tab, CRLF, LF, "
            "'-- c LF|CRLF', '/* c */' (optionally multi-line), nested block comments up to depth 4}; empty gaps only next to a separator; "
            "half of the layouts may separate two text items by block comments only; 1 000 (thorough 20 000) further layouts "
            "drawn inside the domain of the Coq theorems are in addition rendered and positioned by the Coq specification itself "
            "(model-only op 3003) and compared with the printer; plus a malformed stream "
            "(random lexical soup: unterminated/unbalanced comments, '--' inside comments, lone CR, control and non-ASCII "
            "characters, adjacent items) used for model/implementation agreement only. non-trivial = at least two tokens "
            "returned or the sanctioned panic; distinct = distinct case line")
    assumptions_text = ["str::lines as documented for rustc >= 1.70 (CR stripped only in front of LF)",
                        "64-bit usize; texts shorter than 2^31 nested comment levels (nest_lvl: i32)"]

    def gen(self, rng, tier):
        n_lay = 4000 if tier == "quick" else 200000     # + n_str: quick = 5 000 lex_safe layouts
        n_mal = 1000 if tier == "quick" else 40000
        n_str = 1000 if tier == "quick" else 20000
        out = []
        # layouts inside the domain of the theorems: also shown to the Coq specification (extra_checks)
        self.structured = []
        for i in range(n_str):
            toks = POOL[i % len(POOL)]
            if rng.random() < 0.5 and len(toks) > 6:
                a = rng.randrange(0, len(toks) - 3)
                toks = toks[a:a + rng.randrange(2, 12)]
            ev, text, meta, known = s_layout(rng, toks, comment_only_ok=rng.random() < 0.5)
            exp = []
            for off, ln in meta:
                t = text[off:off + ln]
                l, c = position(text, off)
                exp += [1 if is_sep(t) else 0, l, c, ln] + [ord(ch) for ch in t]
            want = [0, 1, len(text)] + [ord(ch) for ch in text] + [len(meta)] + exp
            self.structured.append(("3003 " + " ".join(map(str, ev)), " ".join(map(str, want))))
            out.append(case_3002(text, meta))
        # the witness of the repaired defect (58b7ab0) and its neighbours first
        for txt, toks in (("SEQUENCE/* c */OF", ["SEQUENCE", "OF"]), ("SEQUENCE /* c */OF", ["SEQUENCE", "OF"]),
                          ("SEQUENCE/* c\n */OF", ["SEQUENCE", "OF"]), ("a/**/b", ["a", "b"]), ("a/* /* */ */b", ["a", "b"]),
                          (",/* c */OF", [",", "OF"]), ("OF/* c */,", ["OF", ","])):
            meta = []
            at = 0
            for t in toks:
                at = txt.index(t, at)
                meta.append((at, len(t)))
                at += len(t)
            out.append(case_3002(txt, meta))
        for i in range(n_lay):
            toks = POOL[i % len(POOL)] if rng.random() < 0.8 else rng.choice(POOL)
            if rng.random() < 0.3 and len(toks) > 6:
                a = rng.randrange(0, len(toks) - 3)
                toks = toks[a:a + rng.randrange(2, 12)]
            text, meta = render(rng, toks, comment_only_ok=rng.random() < 0.5,
                                split_compound=rng.random() < 0.5, dense=rng.random() < 0.3)
            out.append(case_3002(text, meta))
        for _ in range(n_mal):
            k = rng.random()
            if k < 0.5:
                s = "".join(rng.choice(MALFORMED_ALPHABET) for _ in range(rng.randrange(0, 25)))
            else:
                toks = rng.choice(POOL)
                text, _ = render(rng, toks[:rng.randrange(0, 15)], True, True, True)
                # mutate: cut, delete or insert lexical fragments
                s = text
                for _ in range(rng.randrange(1, 4)):
                    if not s:
                        break
                    p = rng.randrange(0, len(s) + 1)
                    m = rng.random()
                    if m < 0.3:
                        s = s[:p]
                    elif m < 0.6:
                        s = s[:p] + s[p + rng.randrange(1, 4):]
                    else:
                        s = s[:p] + rng.choice(MALFORMED_ALPHABET) + s[p:]
            out.append("3001 " + " ".join(str(ord(c)) for c in s))
        return out

    def oracle(self, line, out, build):
        a = list(map(int, line.split()))
        if a[0] != 3002:
            return None
        o = list(map(int, out.split()))
        k = a[1]
        pre = a[2:2 + k]
        text = "".join(chr(c) for c in a[2 + k:])
        meta = [(pre[1 + 2 * i], pre[2 + 2 * i]) for i in range(pre[0])]
        expected = []
        for off, ln in meta:
            s = text[off:off + ln]
            line_no, col = position(text, off)
            expected.append((1 if is_sep(s) else 0, line_no, col, s))
        if o[:1] != [0]:
            return ("lex_panic", "well-formed layout not tokenized: %s" % out[:60])
        got = decode_out(o)
        if got == expected:
            return None
        # name the failure: text items separated by block comments only glued into one token
        # (the defect repaired by 58b7ab0; not a listed finding -- an ordinary violation)
        merged = []
        hit = False
        for i, e in enumerate(expected):
            if merged and e[0] == 0 and merged[-1][0] == 0 and i > 0:
                prev_end = meta[i - 1][0] + meta[i - 1][1]
                if only_block_comments(text[prev_end:meta[i][0]]):
                    p = merged[-1]
                    merged[-1] = (0, p[1], p[2], p[3] + e[3])
                    hit = True
                    continue
            merged.append(e)
        if hit and got == merged:
            return ("block_comment_only_gap",
                    "text items separated only by block comment(s) on one line are glued into one token")
        if [(g[0], g[3]) for g in got] != [(e[0], e[3]) for e in expected]:
            bad = next((i for i, (g, e) in enumerate(zip(got, expected)) if (g[0], g[3]) != (e[0], e[3])), min(len(got), len(expected)))
            return ("token_sequence", "token %d: got %s, printed %s (of %d/%d tokens)" %
                    (bad, got[bad][3] if bad < len(got) else None, expected[bad][3] if bad < len(expected) else None,
                     len(got), len(expected)))
        bad = next(i for i, (g, e) in enumerate(zip(got, expected)) if g != e)
        return ("location", "token %d %r reported at %s, starts at %s" % (bad, got[bad][3], got[bad][1:3], expected[bad][1:3]))

    def extra_checks(self, ctx):
        """the Coq specification (render, lex_safe, Known_C13, expect/positions) against this file's printer"""
        import vlib
        cases = getattr(self, "structured", [])
        if not cases:
            return
        got = vlib.run_model([c[0] for c in cases], mode="dev")
        bad = [(c[0], c[1], g) for c, g in zip(cases, got) if c[1] != g]
        ctx.setdefault("coverage_extra", {})["spec_vs_printer"] = {"cases": len(cases), "mismatches": len(bad)}
        if bad:
            ctx["violations"].append({"kind": "coq-spec-differs-from-printer", "case": bad[0][0][:2000],
                                      "python": bad[0][1][:2000], "coq": bad[0][2][:2000], "count": len(bad)})

    def nontrivial(self, line, out):
        o = out.split()
        return o[:1] == ["2"] or (o[:1] == ["0"] and int(o[1]) >= 2)


SPEC = C13()
