import itertools
from vlib import Spec
import uperlib as U
import dectype

INT07 = ("int", 0, (True, 0, True, 7, False))
OCT1 = ("oct", (1, 1, False))
NESTED = ("seq", [("opt", None, ("bool",))], (1, 1, -1))
NESTED_EXT = ("seq", [("req", None, ("bool",)), ("opt", None, ("bool",))], (0, 2, 0))
PALETTE = [("bool",), INT07, OCT1, ("null",), NESTED, NESTED_EXT]
SAMPLE = {0: [("bool", True), ("bool", False)], 1: [("int", 5), ("int", 0)], 2: [("oct", [0xC3]), ("oct", [0])], 3: [("null",), ("null",)],
          4: [("seq", [("bool", True)]), ("seq", [None])], 5: [("seq", [("bool", True), ("bool", False)]), ("seq", [("bool", False), None])]}


def bits_int(v, n):
    return [(v >> i) & 1 for i in range(n - 1, -1, -1)]


def ref_enc(t, v):
    """reference encoding of the palette types: X.691 shape with the crate's open-type convention"""
    k = t[0]
    if k == "bool":
        return [1 if v[1] else 0]
    if k == "null":
        return []
    if k == "int":
        return bits_int(v[1], 3)
    if k == "oct":
        return bits_int(v[1][0], 8)
    if k == "seq":
        return ref_seq(t, v)
    raise ValueError(t)


def present(fk, d, x):
    if fk == "req":
        return True
    if fk == "opt":
        return x is not None
    return x != d


def ref_seq(t, v):
    fields, (so, fc, ea) = t[1], t[2]
    nroot = fc if ea < 0 else ea + 1
    out = []
    adds = [(f, x) for f, x in list(zip(fields, v[1]))[nroot:]]
    any_add = any(present(f[0], f[1], x) for f, x in adds)
    if ea >= 0:
        out.append(1 if any_add else 0)
    for (fk, d, ft), x in list(zip(fields, v[1]))[:nroot]:
        if fk != "req":
            out.append(1 if present(fk, d, x) else 0)
    for (fk, d, ft), x in list(zip(fields, v[1]))[:nroot]:
        if present(fk, d, x):
            out += ref_enc(ft, x)
    if ea >= 0 and any_add:
        out += [0] + bits_int(len(adds) - 1, 6)
        out += [1 if present(f[0], f[1], x) else 0 for f, x in adds]
        for (fk, d, ft), x in adds:
            if present(fk, d, x):
                body = ref_enc(ft, x)
                nbytes = (len(body) + 7) // 8
                out += bits_int(nbytes, 8) + body + [0] * (8 * nbytes - len(body))
    return out


class C03(Spec):
    prop = "C03"
    coq_targets = ["Props/C03.vo"]
    prop_module = "Props.C03"
    theorems = ['C03_preamble', 'C03_presence_bits', 'C03_ext_bit_iff', 'C03_omitted_components', 'C03_decodes', 'C03_refusal_exact', 'C03_refusal_only', 'C03_refusal_complete', 'C03_component_failure']
    builds = [("default", "dev"), ("default", "release")]
    timeout_per_chunk = 600
    xcheck_n = 100
    level_text = ("Preamble/presence theorems over the L2 model for SEQUENCE/SET shapes of any size; model tied to the crate by "
                  "bounded-exhaustive differential execution over all shapes with <= N components, judged by an independent reference "
                  "encoder of the preamble and by the decode-equality and refusal oracles.")
    rule = ("all shapes with <= 3 (quick) / <= 5 (thorough) components x kinds {mandatory, OPTIONAL, DEFAULT} x extension marker position "
            "(none or after component i) x all presence patterns (OPTIONAL present/absent, DEFAULT equal/unequal) x payload rotations over "
            "{BOOLEAN, INTEGER(0..7), OCTET STRING SIZE(1), NULL, nested SEQUENCE, nested extensible SEQUENCE}; exhaustive; each followed by a sentinel value, "
            "and (shapes of <= 2 components, and every all-absent value) also alone, ending exactly at the end of the reader's input. "
            "non-trivial = at least one OPTIONAL/DEFAULT component or an extension marker; distinct = distinct case line")
    assumptions_text = ["descriptor constants derived from the shape as the compiler does (checked separately by C08/C16)",
                        "a shape whose marker precedes the first component is not expressible in the crate (F16-2) and is not generated"]

    def gen(self, rng, tier):
        q = tier == "quick"
        nmax = 3 if q else 5
        L = []
        for n in range(0, nmax + 1):
            for kinds in itertools.product(("req", "opt", "def"), repeat=n):
                for ea in range(-1, n):
                    rots = range(len(PALETTE)) if (q or n <= 3) else [rng.randrange(len(PALETTE))]
                    for rot in rots:
                        pal = [(rot + i * (1 + rot % 2)) % len(PALETTE) for i in range(n)]
                        fields = []
                        for i in range(n):
                            ft = PALETTE[pal[i]]
                            d = SAMPLE[pal[i]][1] if kinds[i] == "def" else None
                            fields.append((kinds[i], d, ft))
                        key = U.consistent_seq(fields, ea)
                        if key not in U.G.SEQ:
                            continue
                        t = ("seq", fields, key)
                        # presence patterns
                        choices = []
                        for i in range(n):
                            if kinds[i] == "req":
                                choices.append([SAMPLE[pal[i]][0]])
                            elif kinds[i] == "opt":
                                choices.append([SAMPLE[pal[i]][0], None])
                            else:
                                choices.append([SAMPLE[pal[i]][0], SAMPLE[pal[i]][1]])
                        for vals in itertools.product(*choices):
                            v = ("seq", list(vals))
                            # followed by a sentinel value to observe exact consumption
                            L.append(U.line(1201, [2] + U.enc_ty(t) + U.enc_val(v) + U.enc_ty(("int", 0, (True, 0, True, 255, False))) +
                                            U.enc_val(("int", 0xA5))))
                            # ... and alone, so that the message ends exactly where the reader's input ends (the preamble or an
                            # absent component may be the very last bits of the buffer)
                            if n <= 2 or all((k != "req") and (x is None or (k == "def" and x == SAMPLE[p_][1])) for k, x, p_ in zip(kinds, vals, pal)):
                                L.append(U.line(1201, [1] + U.enc_ty(t) + U.enc_val(v)))
        return L

    def oracle(self, line, out, build):
        a = list(map(int, line.split()))
        o = list(map(int, out.split()))
        t, i = dectype.dec_ty(a, 2)
        v, i = U.dec_val(a, i)
        fields, (so, fc, ea) = t[1], t[2]
        nroot = fc if ea < 0 else ea + 1
        adds = list(zip(fields, v[1]))[nroot:]
        pres = [present(f[0], f[1], x) for f, x in adds]
        inconsistent = len(pres) > 0 and not pres[0] and any(pres[1:])
        if o[0] in (2, 3):
            return ("encode_panics", "encoder panicked: %s" % out[:30])
        if o[0] == 1:
            if o[1] == 8 and inconsistent:
                return None
            if o[1] == 8:
                return ("refusal_not_exact", "ExtensionFieldsInconsistent although the first addition is present or no later one is")
            return ("refused_other_error", "encoder refused a valid value with error kind %d" % o[1])
        if inconsistent:
            return ("refusal_incomplete", "first addition absent, a later one present, but the encoder accepted")
        bit_len, nb = o[1], o[2]
        got = U_bits(o[3:3 + nb])[:bit_len]
        alone = a[1] == 1
        want = ref_seq(t, v) + ([] if alone else bits_int(0xA5, 8))
        if got != want:
            return ("preamble_or_bits", "bits %s, reference %s" % ("".join(map(str, got[:48])), "".join(map(str, want[:48]))))
        j = 3 + nb
        if o[j] != 0:
            return ("decode_fails", "decode gave %s" % o[j:j + 2])
        back, j = U.dec_val(o, j + 1)
        if back != v:
            return ("decode_differs", "decoded %s, wrote %s" % (str(back)[:80], str(v)[:80]))
        if alone:
            if o[j:j + 2] != [0, 0]:
                return ("not_exact_consumption", "remaining %s after a message that ends the input" % (o[j:j + 2],))
            return None
        if o[j] != 0:
            return ("decode_fails", "sentinel decode gave %s" % o[j:j + 2])
        s, j = U.dec_val(o, j + 1)
        if s != ("int", 0xA5) or o[j:j + 2] != [0, 0]:
            return ("not_exact_consumption", "sentinel %s remaining %s" % (s, o[j:j + 2]))
        return None

    def nontrivial(self, line, out):
        a = line.split()
        return a[4] != "0" or a[6] != "-1"   # so > 0 or extensible


def U_bits(bs):
    out = []
    for b in bs:
        for i in range(7, -1, -1):
            out.append((b >> i) & 1)
    return out


SPEC = C03()
