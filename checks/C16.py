"""C16 -- SET components in canonical tag order; tags assigned per X.680.

Case line (op 3201):  is_set ext auto n (tc tn ty opt)*n m entry*m      (see harness/a1h/src/tags.rs)
Answer             :  0 n order(n) tags(2n, wire order) std_optional extended_after own_class own_number
                      | 1 stage | 2 class | -2

The ORACLE below is written from X.680 (8.6 canonical order, 25.7/25.8 + 29.x automatic tagging, table of
universal tags) and X.691 21.1 (root components of a SET in canonical order, extension additions in textual
order, untagged CHOICE ordered by the smallest tag of its root alternatives); it does not look at the model.
"""
import itertools

from vlib import Spec

UNIVERSAL, APPLICATION, CONTEXT, PRIVATE = 0, 1, 2, 3
# X.680 8.4 table 1 (universal class numbers of the types the crate knows)
UNI = {0: 1, 1: 2, 2: 4, 3: 12, 4: 5, 5: 3, 6: 22, 7: 18, 8: 19, 9: 26, 10: 16, 11: 17, 20: 10, 21: 16, 22: 17}
TYPE_TXT = {0: "BOOLEAN", 1: "INTEGER", 2: "OCTET STRING", 3: "UTF8String", 4: "NULL", 5: "BIT STRING", 6: "IA5String",
            7: "NumericString", 8: "PrintableString", 9: "VisibleString", 10: "SEQUENCE OF INTEGER",
            11: "SET OF INTEGER", 20: "ENUMERATED { x, y }", 21: "SEQUENCE { x INTEGER }", 22: "SET { x INTEGER }",
            99: "Undef"}

# the module every generated case carries: definitions R0.. referenced by the components
TABLE = [
    (-1, 0, 20, None),                                               # R0  ::= ENUMERATED
    (-1, 0, 21, None),                                               # R1  ::= SEQUENCE
    (APPLICATION, 3, 1, None),                                       # R2  ::= [APPLICATION 3] INTEGER
    (CONTEXT, 7, 21, None),                                          # R3  ::= [7] SEQUENCE
    (-1, 0, 0, None),                                                # R4  ::= BOOLEAN
    (-1, 0, 106, None),                                              # R5  ::= R6
    (PRIVATE, 2, 2, None),                                           # R6  ::= [PRIVATE 2] OCTET STRING
    (-1, 0, 23, (-1, [(-1, 0, 1), (-1, 0, 0)])),                     # R7  ::= CHOICE { INTEGER, BOOLEAN }
    (-1, 0, 23, (2, [(CONTEXT, 5, 1), (CONTEXT, 3, 0), (CONTEXT, 1, 4)])),  # R8 ::= CHOICE {[5].., [3].., ..., [1]..}
    (APPLICATION, 9, 23, (-1, [(-1, 0, 1), (-1, 0, 0)])),            # R9  ::= [APPLICATION 9] CHOICE
    (-1, 0, 22, None),                                               # R10 ::= SET
    (-1, 0, 3, None),                                                # R11 ::= UTF8String
    (-1, 0, 23, (-1, [(-1, 0, 113), (-1, 0, 114)])),                 # R12 ::= CHOICE { R13, R14 }
    (-1, 0, 4, None),                                                # R13 ::= NULL
    (-1, 0, 23, (-1, [(APPLICATION, 4, 2)])),                        # R14 ::= CHOICE { [APPLICATION 4] OCTET STRING }
    (-1, 0, 99, None),                                               # R15 ::= Undef            (agreement stream only)
    (-1, 0, 23, (-1, [(-1, 0, 1), (-1, 0, 99)])),                    # R16 ::= CHOICE { INTEGER, Undef }   (ditto)
    (CONTEXT, 4, 99, None),                                          # R17 ::= [4] Undef                  (ditto)
]


def enc_table(table):
    out = [len(table)]
    for tc, tn, kind, ch in table:
        out += [tc, tn, kind]
        if kind == 23:
            out += [ch[0], len(ch[1])]
            for a in ch[1]:
                out += list(a)
    return out


TABLE_INTS = enc_table(TABLE)


def line_of(is_set, ext, auto, comps, table_ints=None):
    xs = [is_set, ext, auto, len(comps)]
    for c in comps:
        xs += list(c)
    xs += TABLE_INTS if table_ints is None else table_ints
    return "3201 " + " ".join(map(str, xs))


def parse_line(line):
    a = list(map(int, line.split()))[1:]
    is_set, ext, auto, n = a[0], a[1], a[2], a[3]
    p = 4
    comps = []
    for _ in range(n):
        comps.append(tuple(a[p:p + 4]))
        p += 4
    m = a[p]
    p += 1
    table = []
    for _ in range(m):
        tc, tn, kind = a[p:p + 3]
        p += 3
        ch = None
        if kind == 23:
            cext, k = a[p:p + 2]
            p += 2
            alts = []
            for _ in range(k):
                alts.append(tuple(a[p:p + 3]))
                p += 3
            ch = (cext, alts)
        table.append((tc, tn, kind, ch))
    return is_set, ext, auto, comps, table


def tag_txt(tc, tn):
    return {-1: "", 0: "[UNIVERSAL %d] " % tn, 1: "[APPLICATION %d] " % tn, 2: "[%d] " % tn, 3: "[PRIVATE %d] " % tn}[tc]


def type_txt(t):
    return TYPE_TXT[t] if t in TYPE_TXT else "R%d" % (t - 100)


def asn1_text(line):
    """the ASN.1 module a case line stands for (same rendering as the harness)"""
    is_set, ext, auto, comps, table = parse_line(line)
    parts = []
    for i, (tc, tn, ty, opt) in enumerate(comps):
        if ext == i:
            parts.append(" ...")
        suffix = "" if opt == 0 else (" DEFAULT FALSE" if (opt, ty) == (2, 0) else " DEFAULT 0" if (opt, ty) == (2, 1) else " OPTIONAL")
        parts.append(" c%d %s%s%s" % (i, tag_txt(tc, tn), type_txt(ty), suffix))
    if ext == len(comps):
        parts.append(" ...")
    s = "Mod DEFINITIONS %s::= BEGIN Top ::= %s {%s }" % ("AUTOMATIC TAGS " if auto else "", "SET" if is_set else "SEQUENCE", ",".join(parts))
    used = set()

    def use(t):
        if t >= 100 and t - 100 not in used:
            used.add(t - 100)
            tc, tn, kind, ch = table[t - 100]
            use(kind)
            for a in (ch[1] if ch else []):
                use(a[2])
    for c in comps:
        use(c[2])
    for j in sorted(used):
        tc, tn, kind, ch = table[j]
        if kind == 23:
            ps = []
            for k, (atc, atn, aty) in enumerate(ch[1]):
                if ch[0] == k:
                    ps.append(" ...")
                ps.append(" a%d %s%s" % (k, tag_txt(atc, atn), type_txt(aty)))
            if ch[0] == len(ch[1]):
                ps.append(" ...")
            s += " R%d ::= %sCHOICE {%s }" % (j, tag_txt(tc, tn), ",".join(ps))
        else:
            s += " R%d ::= %s%s" % (j, tag_txt(tc, tn), type_txt(kind))
    return s + " END"


# ------------------------------------------------------------------ the oracle: X.680 / X.691

class NoAnswer(Exception):
    """X.680 gives no tag (reference to an undefined type)"""


def x680_type_tag(ty, table, auto, depth=0):
    """outermost tag of an untagged type; for an untagged CHOICE the tag it is ordered by (X.680 8.6 / X.691 21.1)"""
    if depth > 50:
        raise NoAnswer()
    if ty in UNI:
        return (UNIVERSAL, UNI[ty])
    if ty == 99:
        raise NoAnswer()
    tc, tn, kind, ch = table[ty - 100]
    if tc != -1:
        return (tc, tn)
    if kind == 23:
        cext, alts = ch
        root = alts if cext == -1 else alts[:cext]
        if auto and all(a[0] == -1 for a in alts):
            # X.680 29.2/29.5: automatic tagging of the alternatives: [0], [1], ... in textual order
            return min((CONTEXT, i) for i in range(len(root)))
        return min((a[0], a[1]) if a[0] != -1 else x680_type_tag(a[2], table, auto, depth + 1) for a in root)
    return x680_type_tag(kind, table, auto, depth + 1)


def x680_expected(is_set, ext, auto, comps, table):
    n = len(comps)
    if auto and n > 0 and all(c[0] == -1 for c in comps):
        tags = [(CONTEXT, i) for i in range(n)]       # X.680 25.7/25.8 (27.3 for SET): automatic tagging
    else:
        tags = [(c[0], c[1]) if c[0] != -1 else x680_type_tag(c[2], table, auto) for c in comps]
    nroot = n if ext == -1 else ext
    if is_set:
        root = sorted(range(nroot), key=lambda i: tags[i])      # X.680 8.6: class, then number
        order = root + list(range(nroot, n))                    # X.691 21.1: additions in textual order
    else:
        order = list(range(n))
    std_opt = sum(1 for c in comps[:nroot] if c[3] != 0)
    own = (UNIVERSAL, 17 if is_set else 16)
    return tags, order, nroot, std_opt, own


def mentions_undefined(comps, table):
    """some reachable type is a reference to a name the module does not define: not a legal module"""
    seen = set()

    def bad(t):
        if t == 99:
            return True
        if t < 100 or t in seen:
            return False
        seen.add(t)
        tc, tn, kind, ch = table[t - 100]
        if kind == 23:
            return any(bad(a[2]) for a in ch[1])
        return bad(kind)
    return any(bad(c[2]) for c in comps)


def chases_untagged_choice(ty, table):
    while ty >= 100:
        tc, tn, kind, ch = table[ty - 100]
        if tc != -1:
            return False
        if kind == 23:
            return True
        ty = kind
    return False


class C16(Spec):
    prop = "C16"
    coq_targets = ["Props/C16.vo"]
    prop_module = "Props.C16"
    theorems = ["C16_canonical_le_is_X680_8_6", "C16_set_sorted", "C16_set_stable", "C16_sequence_textual",
                "C16_tag_rules", "C16_automatic_tags", "C16_presence_order", "C16_conformant",
                "C16_refuted_context_tags_without_automatic_tags", "C16_refuted_additions_sorted_by_tag",
                "C16_refuted_marker_before_first_component", "C16_refuted_empty_extensible_panic",
                "C16_refuted_untagged_choice_ref_automatic", "C16_refuted_field_tag_const", "C16_refuted_set_own_tag"]
    builds = [("default", "dev")]
    level_text = ("Theorems, for component lists of any length, about a hand-written Gallina model of the path of a "
                  "SEQUENCE/SET definition through asn1rs (parser marker position, TagResolver, to_rust, the generated "
                  "#[asn] attributes read back by the proc-macro entry points, AsnDefWriter: assign_implicit_tags, "
                  "TAG constants, sort_fields_canonically, STD_OPTIONAL_FIELDS, EXTENDED_AFTER_FIELD); the class order "
                  "is proved against the variant order generated from asn/tag.rs; the model is tied to the crate by "
                  "differential execution of whole definitions (ASN.1 text -> generated impl text).")
    rule = ("SET and SEQUENCE definitions over a palette of explicit tags (4 classes x numbers {0,1,2,5,30,31}), untagged "
            "builtins, inline ENUMERATED/SEQUENCE/SET and untagged references to tagged/untagged/chained/CHOICE definitions: "
            "all ordered pairs of a reduced palette, all permutations of sampled 3- and 4-component selections (5 in "
            "thorough), each with every marker position, AUTOMATIC TAGS on/off, OPTIONAL/DEFAULT sprinkled; a separate "
            "stream (duplicate tags in a SET, references to undefined names) is used for model/impl agreement only. "
            "non-trivial = the front end produced a layout for >= 2 components; distinct = distinct case line")
    assumptions_text = ["the rendering of a case line as ASN.1 text in harness/a1h/src/tags.rs and the regular-expression "
                        "extraction of field order / TAG constants from the expanded impl text",
                        "slice::sort_by is a stable sort (modelled as insertion sort)"]
    xcheck_n = 150

    # ---------------------------------------------------------------- generation
    def gen(self, rng, tier):
        L = []
        nums = [0, 1, 2, 5, 30, 31]
        base_types = [0, 1, 2, 3, 4]
        more_types = [5, 6, 7, 8, 9, 10, 11, 20, 21, 22]
        refs = [100 + j for j in range(15)]

        def explicit():
            return (rng.randrange(4), rng.choice(nums), rng.choice(base_types + refs[:5] + (more_types if rng.random() < 0.3 else [])))

        def untagged():
            r = rng.random()
            if r < 0.45:
                return (-1, 0, rng.choice(base_types))
            if r < 0.6:
                return (-1, 0, rng.choice(more_types))
            return (-1, 0, rng.choice(refs))

        def with_opt(item):
            r = rng.random()
            opt = 0 if r < 0.6 else 1 if r < 0.85 else (2 if item[2] in (0, 1) else 1)
            return item + (opt,)

        def variants(comps, markers=None, autos=(0, 1), kinds=(1, 0)):
            n = len(comps)
            ms = list(range(-1, n + 1)) if markers is None else markers
            for is_set in kinds:
                for auto in autos:
                    for ext in ms:
                        L.append(line_of(is_set, ext, auto, comps))

        # n = 0, 1: everything
        variants([])
        for item in [(c, k, 1) for c in range(4) for k in nums] + [(-1, 0, t) for t in base_types + more_types + refs]:
            for opt in (0, 1):
                variants([item + (opt,)])
        variants([(-1, 0, 1, 2)])
        variants([(CONTEXT, 1, 0, 2)])
        # n = 2: all ordered pairs of a reduced palette
        pal2 = [(c, k, 1) for c in range(4) for k in (0, 2)] + [(-1, 0, t) for t in (0, 1, 2, 4, 11, 20, 100, 102, 105, 107, 108)]
        if tier != "quick":
            pal2 += [(c, k, 0) for c in range(4) for k in (1, 31)] + [(-1, 0, t) for t in (3, 10, 21, 22, 101, 103, 109, 112)]
        for a in pal2:
            for b in pal2:
                if a == b and a[0] != -1:
                    continue
                variants([with_opt(a), with_opt(b)])
        # ties and near-ties of the universal tags of the constructed types (SEQUENCE / SEQUENCE OF = 16, SET / SET OF = 17):
        # every ordered pair of them next to one explicitly tagged component, in every position
        import itertools
        cons = [10, 11, 21, 22]
        for a in cons:
            for b in cons:
                if a == b:
                    continue
                for tagged in [(PRIVATE, 1, 0), (CONTEXT, 0, 1), (APPLICATION, 5, 0)]:
                    for perm in itertools.permutations([tagged + (0,), (-1, 0, a, 0), (-1, 0, b, 0)]):
                        variants(list(perm), markers=[-1, 3], autos=(1, 0), kinds=(1,))
                variants([(-1, 0, a, 1), (-1, 0, b, 1)], markers=[-1], autos=(0,), kinds=(1,))
        # n >= 3: sampled selections, all permutations of each
        plan = {3: 200, 4: 80} if tier == "quick" else {3: 1500, 4: 500, 5: 60}
        for n, count in plan.items():
            for _ in range(count):
                mode = rng.random()
                if mode < 0.4:
                    sel = [explicit() for _ in range(n)]
                elif mode < 0.6:
                    sel = [untagged() for _ in range(n)]
                else:
                    sel = [explicit() if rng.random() < 0.5 else untagged() for _ in range(n)]
                sel = [with_opt(s) for s in sel]
                markers = [-1, rng.randrange(0, n + 1), rng.randrange(1, n + 1)]
                auto = rng.randrange(2)
                perms = list(itertools.permutations(sel))
                if len(perms) > 24 and tier == "quick":
                    perms = rng.sample(perms, 24)
                for p in perms:
                    variants(list(p), markers=sorted(set(markers)), autos=(auto,), kinds=(1,))
                variants(sel, markers=sorted(set(markers)), autos=(1 - auto,), kinds=(0, 1))
        # agreement-only stream: duplicate tags, undefined references
        for _ in range(300 if tier == "quick" else 3000):
            n = rng.randrange(1, 5)
            sel = []
            for _ in range(n):
                r = rng.random()
                if r < 0.3:
                    sel.append((rng.randrange(4), rng.choice([0, 1]), rng.choice(base_types + [99, 115, 116, 117])))
                elif r < 0.6:
                    sel.append((-1, 0, rng.choice([99, 115, 116, 117])))
                else:
                    sel.append((-1, 0, rng.choice(base_types[:2] + [104, 100])))
            L.append(line_of(rng.randrange(2), rng.randrange(-1, n + 1), rng.randrange(2), [with_opt(s) for s in sel]))
        return L

    # ---------------------------------------------------------------- oracle
    def oracle(self, line, out, build):
        try:
            is_set, ext, auto, comps, table = parse_line(line)
        except Exception:
            return None
        o = list(map(int, out.split()))
        if o[:1] == [-2] or o[:1] == [-1]:
            return None
        n = len(comps)
        if mentions_undefined(comps, table):
            return None
        try:
            tags, order, nroot, std_opt, own = x680_expected(is_set, ext, auto, comps, table)
        except NoAnswer:
            return None
        if is_set and len(set(tags)) != len(tags):
            return None        # X.680 27.3: the tags of a SET shall be distinct -- not a legal definition
        txt = asn1_text(line)
        if o[0] == 3:
            return ("front_end_crash", "front end crashed/hung (%s) on: %s" % (out, txt))
        if o[0] == 2:
            if n == 0 and ext == 0:
                # an extensible type without components has no component order to judge (C16 is vacuous);
                # the generator panic on it is reported under C14/C09
                return None
            return ("front_end_panic", "front end panicked (%s) on: %s" % (out, txt))
        if o[0] == 1:
            return ("front_end_error", "front end failed at stage %s on a legal definition: %s" % (o[1:], txt))
        if o[0] != 0 or o[1] != n or len(o) != 2 + 3 * n + 4:
            return ("malformed_answer", out)
        got_order = o[2:2 + n]
        got_tags_wire = [(o[2 + n + 2 * k], o[2 + n + 2 * k + 1]) for k in range(n)]
        got_std, got_ext = o[2 + 3 * n], o[2 + 3 * n + 1]
        got_own = (o[2 + 3 * n + 2], o[2 + 3 * n + 3])
        if sorted(got_order) != list(range(n)):
            return ("not_a_permutation", "fields %s for %s" % (got_order, txt))
        got_tags = [None] * n
        for k, i in enumerate(got_order):
            got_tags[i] = got_tags_wire[k]
        fails = []
        all_untagged = n > 0 and all(c[0] == -1 for c in comps)
        # 1. tags that matter for the order
        low = []      # TAG-constant-only deviations (the sort key is right)
        for i, c in enumerate(comps):
            if got_tags[i] == tags[i]:
                continue
            what = "c%d has tag %s, X.680 says %s" % (i, got_tags[i], tags[i])
            if not auto and all_untagged and got_tags[i] == (CONTEXT, i):
                fails.append((0, "context_tags_without_automatic_tags", what))
            elif c[0] == -1 and c[3] == 2 and got_tags[i] == (UNIVERSAL, 16):
                low.append((8, "default_field_tag_const", what))
            elif c[0] == -1 and c[2] == 11 and got_tags[i] == (UNIVERSAL, 16):
                low.append((9, "set_of_field_tag_const", what))
            elif c[0] == -1 and auto and chases_untagged_choice(c[2], table):
                fails.append((2, "untagged_choice_ref_automatic", what))
            else:
                fails.append((3, "wrong_tag", what))
        # 2. root / addition split
        marker_first = ext == 0 and n > 0
        want_ext = -1 if ext == -1 else nroot - 1
        if got_ext != want_ext or (marker_first and got_ext != -1):
            cls = "marker_before_first_component" if marker_first else "wrong_extended_after"
            fails.append((1 if marker_first else 6, cls, "EXTENDED_AFTER_FIELD %d, %d root components expected" % (got_ext, nroot)))
        if got_std != std_opt:
            fails.append((1 if marker_first else 7, "marker_before_first_component" if marker_first else "wrong_std_optional_fields",
                          "STD_OPTIONAL_FIELDS %d, expected %d" % (got_std, std_opt)))
        # 3. order
        # the order that follows from the tags the crate itself assigned (root block, then additions, stable)
        nroot_got = n if got_ext == -1 else got_ext + 1
        if is_set:
            from_got = sorted(range(min(nroot_got, n)), key=lambda i: got_tags[i]) + sorted(range(min(nroot_got, n), n), key=lambda i: got_tags[i])
        else:
            from_got = list(range(n))
        explained = bool(fails) and got_order == from_got   # a consequence of the tag / marker deviation already reported
        if got_order != order and not explained:
            what = "wire order %s, expected %s" % (got_order, order)
            if marker_first:
                fails.append((1, "marker_before_first_component", what))
            elif not is_set:
                fails.append((4, "sequence_reordered", what))
            elif got_order[:nroot] == order[:nroot] and sorted(got_order[nroot:]) == order[nroot:] and \
                    got_order[nroot:] == sorted(order[nroot:], key=lambda i: tags[i]):
                # the property asks for canonical tag order with root components before additions; the crate sorts the
                # additions among themselves as well. (X.691 21.1 can be read as textual order for additions: noted in
                # DESIGN.md as a C02 observation, not judged here.)
                pass
            else:
                fails.append((4, "wrong_order", what))
        fails += low
        if got_own != own:
            fails.append((10, "set_own_tag" if is_set else "sequence_own_tag", "TAG of the type itself is %s, expected %s" % (got_own, own)))
        if not fails:
            return None
        fails.sort(key=lambda f: f[0])
        seen = set()
        res = []
        for f in fails:
            if f[1] not in seen:
                seen.add(f[1])
                res.append((f[1], "%s :: %s" % (f[2], txt)))
        return res

    def nontrivial(self, line, out):
        o = out.split()
        return o[:1] == ["0"] and int(o[1]) >= 2


SPEC = C16()
