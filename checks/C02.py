from vlib import Spec, run_model
import uperlib as U
import dectype


def in_profile_ty(t):
    """DESIGN.md section 4: A..B bounds only (no MIN/MAX keyword forms, i.e. no half-open INTEGER ranges
    and no half-open SIZE), everything else of the grid"""
    k = t[0]
    if k == "int":
        hl, lo, hh, hi, ext = t[2]
        return hl == hh and (hl or not ext)    # an extension marker needs a constraint to follow
    if k in ("oct", "bits"):
        lo, hi, ext = t[1]
        return (lo >= 0) == (hi >= 0)
    if k == "str":
        lo, hi, ext = t[2]
        return (lo >= 0) == (hi >= 0)
    if k == "list":
        lo, hi, ext = t[2]
        return (lo >= 0) == (hi >= 0) and in_profile_ty(t[1])
    if k == "seq":
        return all(in_profile_ty(ft) for _, _, ft in t[1])
    if k == "choice":
        return all(in_profile_ty(a) for a in t[1])
    return True


class C02(Spec):
    prop = "C02"
    coq_targets = ["Props/C02.vo"]
    prop_module = "Props.C02"
    theorems = ['C02_reference_is_X691', 'C02_reference_is_X691_defined', 'C02_x691_defined_on_values', 'C02_writer_is_X691', 'C02_reader_accepts_X691', 'C02_not_a_value_rejected', 'C02_not_a_value_not_encoded', 'C02_writer_exact', 'C02_known_C01_inside', 'C02_deviates_means', 'C02_refuted_size_upper_bound_64k', 'C02_refuted_fragmentation_16k', 'C02_refuted_empty_open_type', 'C02_refuted_mandatory_choice_addition_inline', 'C02_refuted_more_than_64_additions', 'C02_refuted_first_addition_absent', 'C02_refuted_int_beyond_i64', 'C02_refuted_open_type_16k_reader']
    builds = [("default", "dev"), ("default", "release")]
    timeout_per_chunk = 600
    xcheck_n = 60
    level_text = ("The writer/reader model (and through the tie the crate) is compared with an independent clause-by-clause transcription "
                  "of X.691 at type level (Uper/X691Type.v over the primitives of Per/X691.v): writer bits = X691(t, v) and reader(X691(t, v)) = v "
                  "for types inside the conformance profile; the derivation of the descriptor constants from ASN.1 text is the subject of C08/C16.")
    rule = ("random profile types on the constant grid (depth <= 3 quick / <= 5 thorough: A..B integer ranges, SIZE(N)/SIZE(A..B) with and without "
            "extension marker, nested SEQUENCE/SET with OPTIONAL/DEFAULT and additions, CHOICE/ENUMERATED with extensions, SEQUENCE OF), values "
            "inside the root and in the extension; for each (t, v): the crate's bits vs the reference bits (op 1251), and the crate's reader on the "
            "reference bits followed by trailing data. non-trivial = reference defined with >= 1 bit; distinct = distinct case line")
    assumptions_text = ["X691Type.v / X691.v are my transcription of ITU-T X.691 (no independent PER codec is available offline)",
                        "ENUMERATED/CHOICE indices are taken in the order of the descriptor (sorting by value / tag is the compiler's task: C16, finding in section 11)"]

    def gen(self, rng, tier):
        q = tier == "quick"
        n = 2500 if q else 60000
        maxd = 3 if q else 5
        pairs = []
        while len(pairs) < n:
            t = U.gen_ty(rng, rng.randrange(0, maxd + 1))
            if not in_profile_ty(t):
                continue
            v = U.gen_val(rng, t, rng.choice(["valid", "valid", "ext"]))
            # the profile keeps INTEGER values within i64 (u64 values above i64::MAX travel as their i64 reinterpretation)
            if dectype.find(t, v, lambda tt, vv: tt[0] == "int" and vv is not None and not (U.I64_MIN <= vv[1] <= U.I64_MAX)):
                continue
            pairs.append((t, v))
        # size boundaries around 127/128 for strings and lists
        # ... and the fragmentation boundary (X.691 11.9.3.8) under the unconstrained length form
        for ln in (0, 1, 127, 128, 129, 300, 16383, 16384, 16392, 32768, 40000):
            for key in [(-1, -1, False), (-1, -1, True), (0, 65535, False), (0, 3, True)]:
                if ln > 300 and key[0] == 0 and not (key[2] and q):
                    continue
                if not U.in_size(ln, key) and not key[2]:
                    continue
                pairs.append((("oct", key), ("oct", [(7 * i + 3) % 256 for i in range(ln)])))
                pairs.append((("str", U.CS_IA5, key), ("str", [65 + i % 26 for i in range(ln)])))
                pairs.append((("str", U.CS_NUM, key), ("str", [48 + i % 10 for i in range(ln)])))
                pairs.append((("str", U.CS_UTF8, key), ("str", [0xE4 if i % 5 == 0 else 97 + i % 26 for i in range(ln)])))
                pairs.append((("list", ("int", 0, (True, 0, True, 7, False)), key), ("list", [("int", i % 8) for i in range(ln)])))
                nb = (ln + 7) // 8
                bs = [(11 * i + 5) % 256 for i in range(nb)]
                if ln % 8:
                    bs[-1] &= (0xFF << (8 - ln % 8)) & 0xFF
                pairs.append((("bits", key), ("bits", bs, ln)))
        L = []
        # writer side: the crate writes (t, v); compared with the reference in the oracle through ref_line
        for t, v in pairs:
            L.append(U.line(1201, [1] + U.enc_ty(t) + U.enc_val(v)))
        # reader side: the crate reads the reference bits (followed by a trailing 0xA5 octet)
        refs = run_model([U.line(1251, U.enc_ty(t) + U.enc_val(v)) for t, v in pairs], mode="release", timeout=600)
        self._expect = {}
        for (t, v), r in zip(pairs, refs):
            rr = list(map(int, r.split()))
            if rr[:1] != [0]:
                continue
            nbits, nb = rr[1], rr[2]
            bits = []
            for b in rr[3:3 + nb]:
                for i in range(7, -1, -1):
                    bits.append((b >> i) & 1)
            bits = bits[:nbits] + [1, 0, 1, 0, 0, 1, 0, 1]
            bs = []
            for i in range(0, len(bits), 8):
                ch = bits[i:i + 8] + [0] * (8 - len(bits[i:i + 8]))
                x = 0
                for bit in ch:
                    x = 2 * x + bit
                bs.append(x)
            line = U.line(1202, U.enc_ty(t) + [len(bits)] + bs)
            # the expected value travels with the case (appended as a comment-like suffix is not possible): keep a side table
            self._expect[line] = (v, 8)
            L.append(line)
        return L

    def ref_line(self, line):
        a = line.split()
        if a[0] == "1201":
            return " ".join(["1251"] + a[2:])
        return None

    def canon(self, out):
        if out.startswith("3 ") or out.endswith(" 2 7") or out.endswith(" 2 3") or out in ("2 7", "2 7 0", "2 3 0"):
            return "UNBOUNDED"
        return out

    def oracle(self, line, out, build, ref=None):
        a = list(map(int, line.split()))
        o = list(map(int, out.split()))
        if a[0] == 1201:
            t, i = dectype.dec_ty(a, 2)
            v, i = U.dec_val(a, i)
            r = list(map(int, ref.split())) if ref else [1]
            if r[0] != 0:
                if o[0] == 0 and not U.sat(t, v):
                    return ("accepts_value_outside_type", "the writer accepted a value that is not a value of the type")
                return None     # no reference (value outside the type, or a form the reference does not transcribe)
            if o[0] in (2, 3):
                return (self._cls(t, v, "writer_panics"), "writer panicked on a value of the type: %s" % out[:30])
            if o[0] == 1:
                if o[1] == 8:
                    return None     # the sanctioned refusal of C03 (first addition absent, a later one present)
                return (self._cls(t, v, "writer_rejects"), "writer rejected a value of the type with error kind %d" % o[1])
            nb = o[2]
            got = self._bits(o[3:3 + nb], o[1])
            want = self._bits(r[3:3 + r[2]], r[1])
            if got != want:
                return (self._cls(t, v, "not_x691"), "writer bits differ from X.691: %d bits vs %d bits; first difference at bit %d" %
                        (len(got), len(want), next((k for k, (x, y) in enumerate(zip(got, want)) if x != y), min(len(got), len(want)))))
            return None
        # reader on reference bits
        t, i = dectype.dec_ty(a, 1)
        exp = getattr(self, "_expect", {}).get(line)
        if exp is None:
            return None
        v, trailing = exp
        if o[0] in (2, 3):
            return (self._cls(t, v, "reader_panics_on_x691"), "reader panicked on a canonical encoding: %s" % out[:30])
        if o[0] == 1:
            return (self._cls(t, v, "reader_rejects_x691"), "reader rejected a canonical encoding with error kind %d" % o[1])
        got, j = U.dec_val(o, 1)
        if got != v:
            return (self._cls(t, v, "reader_misreads_x691"), "reader decoded %s from the canonical encoding of %s" % (str(got)[:80], str(v)[:80]))
        if o[j:j + 2] != [0, trailing]:
            return (self._cls(t, v, "reader_consumes_other"), "reader left %s bits, expected %d" % (o[j:j + 2], trailing))
        return None

    def _bits(self, bs, n):
        out = []
        for b in bs:
            for i in range(7, -1, -1):
                out.append((b >> i) & 1)
        return out[:n]

    def _cls(self, t, v, what):
        """narrow classes for the deviations listed in DESIGN.md section 11"""
        hits = []

        def f(tt, vv, path):
            if vv is None:
                return
            k = tt[0]
            key = tt[1] if k in ("oct", "bits") else (tt[2] if k in ("str", "list") else None)
            if key is not None and key[1] >= 65536 and U.in_size(self._len(tt, vv), key):
                hits.append("size_upper_bound_64k")
            if key is not None and self._len(tt, vv) >= 16384:
                hits.append("fragmentation_16k")
            if path:
                last = path[-1]
                is_add = last[0] == "field" and last[3][2] >= 0 and last[1] > last[3][2]
                is_ext_alt = last[0] == "alt" and last[1] >= last[2][0]
                if (is_add or is_ext_alt) and self._empty(tt, vv):
                    hits.append("empty_open_type")
                if is_add and last[2] == "req" and k == "choice":
                    hits.append("mandatory_choice_addition_inline")
        dectype.walk(t, v, f)
        for h in ("fragmentation_16k", "size_upper_bound_64k", "mandatory_choice_addition_inline", "empty_open_type"):
            if h in hits:
                return h + "_" + what
        return what

    def _len(self, tt, vv):
        return vv[2] if tt[0] == "bits" else len(vv[1])

    def _empty(self, tt, vv):
        """does the value encode to zero bits?"""
        k = tt[0]
        if k == "null":
            return True
        if k == "int":
            hl, lo, hh, hi, ext = tt[2]
            return hl and hh and lo == hi and not ext
        if k in ("oct", "bits", "str", "list"):
            key = tt[1] if k in ("oct", "bits") else tt[2]
            if k == "str" and tt[1] == U.CS_UTF8:
                return False
            fixed = key[0] >= 0 and key[0] == key[1] and key[1] < 65536 and not key[2]
            if k == "list":
                return fixed and all(self._empty(tt[1], x) for x in vv[1])
            return fixed and key[0] == 0
        if k == "seq":
            so, fc, ea = tt[2]
            return ea < 0 and so == 0 and all(self._empty(ft, x) for (_, _, ft), x in zip(tt[1], vv[1]))
        if k == "enum":
            return tt[1] == 1 and not tt[2][1]
        if k == "choice":
            return len(tt[1]) == 1 and not tt[2][1] and self._empty(tt[1][0], vv[2])
        return False

    def nontrivial(self, line, out):
        return out.startswith("0") and len(out.split()) > 3


SPEC = C02()
