from vlib import Spec

I64_MIN, I64_MAX, U64_MAX = -2**63, 2**63 - 1, 2**64 - 1
REF = {1003: 1051, 1005: 1052, 1006: 1053, 1004: 1054, 1007: 1055, 1008: 1056,
       1009: 1057, 1019: 1058, 1010: 1059, 1020: 1060}


def pow_family(lo, hi):
    s = set()
    for k in range(0, 65):
        for d in (-1, 0, 1):
            for sg in (1, -1):
                v = sg * 2**k + d
                if lo <= v <= hi:
                    s.add(v)
    for v in (lo, lo + 1, hi - 1, hi, 0, 127, 128, 16383, 16384, 65535, 65536):
        if lo <= v <= hi:
            s.add(v)
    return sorted(s)


def parse_wr(o):
    """answer of a write+read op -> dict"""
    if o[0] != 0:
        return {"w": o[0], "wcode": o[1] if len(o) > 1 else None}
    wlen, nb = o[1], o[2]
    bs = o[3:3 + nb]
    r = o[3 + nb:]
    return {"w": 0, "wlen": wlen, "bytes": bs, "r": r}


class C10(Spec):
    prop = "C10"
    coq_targets = ["Props/C10.vo"]
    prop_module = "Props.C10"
    theorems = ['C10_constrained_write', 'C10_constrained_reject', 'C10_constrained_read', 'C10_nnbi_write', 'C10_nnbi_reject', 'C10_nnbi_read', 'C10_nnbi_unbounded_write', 'C10_nnbi_unbounded_read', 'C10_normally_small_write', 'C10_normally_small_read', 'C10_semi_constrained_write', 'C10_semi_constrained_reject', 'C10_semi_constrained_read', 'C10_unconstrained_write', 'C10_unconstrained_read', 'C10_index_write', 'C10_index_reject', 'C10_index_inadmissible', 'C10_index_read', 'C10_index_read_empty', 'C10_length_write', 'C10_length_fragment', 'C10_length_reject', 'C10_length_read', 'C10_refuted_length_semi_or_large_bound', 'C10_refuted_length_large_bound', 'C10_octetstring_write', 'C10_octetstring_write_ext', 'C10_octetstring_reject', 'C10_octetstring_read', 'C10_refuted_octetstring_sized_length', 'C10_bitstring_write', 'C10_bitstring_read', 'C10_bitstring_reject', 'C10_refuted_bitstring_16k', 'C10_twos_write', 'C10_twos_octets', 'C10_twos_reject_len', 'C10_twos_reject_val', 'C10_twos_read', 'C10_no_panic_writers', 'C10_no_panic_readers', 'C10_no_panic_octetstring_read', 'C10_refuted_octetstring_alloc', 'C10_no_panic_bitstring_read_bounded', 'C10_refuted_bitstring_read_16k', 'C10_index_read_overflow_is_error', 'C10_refuted_nnbi_read_overflow']
    builds = [("default", "dev"), ("default", "release")]
    timeout_per_chunk = 600
    mem_gb = 4
    level_text = ("Theorems relating the Gallina model of unaligned/mod.rs (every PackedWrite/PackedRead method, both cargo "
                  "profiles) to an independent clause-by-clause transcription of X.691 11.3-11.9, 14, 16, 17 (Per/X691.v); "
                  "model tied to the crate by differential execution; the implementation's bits are additionally compared with "
                  "the X.691 reference evaluated by the extracted model driver.")
    rule = ("constrained whole numbers exhaustive for lb in [-40,40], range <= 300 (quick: strided), v in [lb-1, ub+1]; boundary families "
            "around 2^k, i64/u64 extremes for all integer primitives; length determinants 0..300, 127/128, 16383/16384, 65535/65536 and "
            "bounded/semi-bounded forms; enumeration indices std 0..70 x extensible; OCTET/BIT STRING lengths up to 200K covering every "
            "fragment-count class (0-4 full 16K blocks x remainder {0,1,16383}) x size-constraint forms; raw reader inputs. "
            "non-trivial = write produced at least one bit and read-back succeeded, or a raw read consumed at least 8 bits; distinct = distinct line")
    assumptions_text = ["BitBuffer/Bits behave as append/cursor on bit lists (C11)", "64-bit usize",
                        "allocation above 4 GiB treated as unbounded (RLIMIT_AS 4 GiB in the harness child)"]

    def gen(self, rng, tier):
        L = []
        q = tier == "quick"
        # --- constrained whole numbers: exhaustive small ---
        lbs = [-40, -17, -1, 0, 1, 7, 40] if q else range(-40, 41)
        for lb in lbs:
            ranges = list(range(0, 20)) + [31, 32, 33, 63, 64, 65, 127, 128, 129, 254, 255, 256, 257, 299, 300] if q else range(0, 301)
            for rg in ranges:
                ub = lb + rg
                vs = range(lb - 1, ub + 2)
                if q and rg > 40:
                    vs = sorted(set([lb - 1, lb, lb + 1, lb + rg // 2, ub - 1, ub, ub + 1] + [rng.randint(lb, ub) for _ in range(6)]))
                for v in vs:
                    L.append("1003 %d %d %d" % (lb, ub, v))
        fam = pow_family(I64_MIN, I64_MAX)
        for _ in range(1500 if q else 60000):
            a, b = rng.choice(fam), rng.choice(fam)
            lb, ub = min(a, b), max(a, b)
            for v in set([lb, ub, (lb + ub) // 2, max(I64_MIN, lb - 1), min(I64_MAX, ub + 1), rng.randint(lb, ub)]):
                L.append("1003 %d %d %d" % (lb, ub, v))
        # --- non-negative binary integer ---
        ufam = pow_family(0, U64_MAX)
        for _ in range(1500 if q else 40000):
            k = rng.random()
            if k < 0.2:
                L.append("1001 -1 -1 %d" % rng.choice(ufam))
            else:
                a, b = rng.choice(ufam), rng.choice(ufam)
                lb, ub = min(a, b), max(a, b)
                v = rng.choice([lb, ub, (lb + ub) // 2, max(0, lb - 1), min(U64_MAX, ub + 1), rng.choice(ufam)])
                lbs_ = lb if rng.random() < 0.7 else -1
                ubs_ = ub if rng.random() < 0.8 else -1
                L.append("1001 %d %d %d" % (lbs_, ubs_, v))
        # --- 2's complement ---
        for bl in list(range(0, 67)) + [70, 128, 255, 256]:
            lo, hi = (-(2 ** (bl - 1)), 2 ** (bl - 1) - 1) if 0 < bl <= 64 else (I64_MIN, I64_MAX)
            for v in set([lo, hi, 0, -1, 1, rng.randint(lo, hi), rng.randint(I64_MIN, I64_MAX)]):
                L.append("1002 %d %d" % (bl, v))
        # --- normally small, semi-constrained, unconstrained ---
        for v in sorted(set(list(range(0, 131)) + ufam)):
            L.append("1004 %d" % v)
        for lb in pow_family(I64_MIN, I64_MAX)[::(7 if q else 1)]:
            for v in set([lb, lb + 1, lb - 1, lb + 127, lb + 128, lb + 255, lb + 256, lb + 65535, lb + 65536, 0, I64_MAX, I64_MIN]):
                if I64_MIN <= v <= I64_MAX:
                    L.append("1005 %d %d" % (lb, v))
        for v in fam:
            L.append("1006 %d" % v)
        for _ in range(300 if q else 5000):
            L.append("1006 %d" % rng.randint(I64_MIN, I64_MAX))
        # --- length determinants ---
        lens = sorted(set(list(range(0, 301)) + [16383, 16384, 16385, 32767, 32768, 49152, 65535, 65536, 65537, 70000,
                                                  131072, 200000, 2**20, 2**22, 2**22 + 1, 2**32, 2**63 - 1]))
        for v in lens:
            L.append("1007 -1 -1 %d" % v)
        for lb, ub in [(0, 0), (0, 1), (1, 1), (0, 7), (3, 3), (3, 10), (0, 255), (1, 256), (0, 65535), (5, 65535), (65535, 65535),
                       (0, 65536), (1, 65536), (65536, 65536), (0, 70000), (1, 70000), (5, -1), (0, -1), (1, -1), (16384, -1),
                       (-1, 10), (-1, 65535), (-1, 65536), (-1, 100000), (70000, 70000), (100, 2**40)]:
            u = ub if ub >= 0 else 200000
            l = max(lb, 0)
            for v in sorted(set([l, l + 1, (l + u) // 2, u - 1, u, u + 1, max(0, l - 1), 2 * l - 1 if l else 0, 2 * l, 127, 128, 16383, 16384])):
                if v >= 0:
                    L.append("1007 %d %d %d" % (lb, ub, v))
        # --- enumeration / choice index ---
        for std in list(range(0, 71)) + [127, 128, 129, 255, 256, 257, 65536]:
            for ext in (0, 1):
                for idx in sorted(set([0, 1, std - 1, std, std + 1, std + 62, std + 63, std + 64, std + 65, std + 300, 2 * std])):
                    if idx >= 0:
                        L.append("1008 %d %d %d" % (std, ext, idx))
        # --- octet strings: explicit small, pattern large ---
        cons = [(-1, -1, 0), (-1, -1, 1), (0, 0, 0), (0, 0, 1), (1, 1, 0), (2, 2, 0), (3, 3, 1), (0, 5, 0), (2, 5, 1), (1, 300, 0),
                (0, 65535, 0), (16384, 16384, 0), (65535, 65535, 0), (65536, 65536, 0), (0, 65536, 0), (1, 70000, 0), (1, 70000, 1),
                (5, -1, 0), (5, -1, 1), (-1, 20, 0), (70000, 200000, 0), (20000, 20000, 1)]
        for lb, ub, ext in cons:
            u = ub if ub >= 0 else 30
            l = max(lb, 0)
            for n in sorted(set([0, 1, 2, 3, l - 1, l, l + 1, u - 1, u, u + 1, 2 * l - 1, 2 * l])):
                if 0 <= n <= 400:
                    bs = [rng.randrange(256) for _ in range(n)]
                    L.append("1009 %d %d %d %d %s" % (lb, ub, ext, n, " ".join(map(str, bs))))
        if q:
            big = [16383, 16384, 16385, 32768, 49153, 65535, 65536, 65537, 81920]
            bigcons = [(-1, -1, 0), (0, 70000, 0), (0, 5, 1)]
            huge = [(131072, (-1, -1, 0)), (200000, (-1, -1, 0))]
        else:
            big = []
            for blocks in range(0, 14):
                for rem in (0, 1, 16383):
                    big.append(blocks * 16384 + rem)
            big += [65535, 65537, 70000, 131071, 131072, 131073, 200000]
            bigcons = [(-1, -1, 0), (-1, -1, 1), (0, 70000, 0), (1, 300000, 0), (0, 65535, 0), (0, 5, 1), (5, -1, 0)]
            huge = []
        for n in sorted(set(big)):
            for lb, ub, ext in bigcons + [(n, n, 0)]:
                L.append("1019 %d %d %d %d %d %d" % (lb, ub, ext, n, 7, 3))
        for n, (lb, ub, ext) in huge:
            L.append("1019 %d %d %d %d %d %d" % (lb, ub, ext, n, 7, 3))
        # --- bit strings ---
        for lb, ub, ext in cons:
            u = ub if ub >= 0 else 30
            l = max(lb, 0)
            for n in sorted(set([0, 1, 2, 7, 8, 9, l - 1, l, l + 1, u - 1, u, u + 1])):
                if 0 <= n <= 400:
                    nb = (n + 7) // 8 + rng.randrange(0, 2)
                    bs = [rng.randrange(256) for _ in range(nb)]
                    off = rng.randrange(0, max(1, 8 * nb - n + 1)) if rng.random() < 0.3 else 0
                    L.append("1010 %d %d %d %d %d %d %s" % (lb, ub, ext, off, n, nb, " ".join(map(str, bs))))
        for n in sorted(set(big)):
            for lb, ub, ext in bigcons + [(n, n, 0)]:
                L.append("1020 %d %d %d %d %d %d %d %d" % (lb, ub, ext, 0, n, (n + 7) // 8, 11, 5))
        for n, (lb, ub, ext) in huge:
            L.append("1020 %d %d %d %d %d %d %d %d" % (lb, ub, ext, 0, n, (n + 7) // 8, 11, 5))
        # --- raw reads (C04 for the primitives) ---
        for _ in range(3000 if q else 100000):
            op = rng.choice([1031, 1032, 1033, 1034, 1035, 1036, 1037, 1038, 1039, 1040])
            n = rng.randrange(0, 14)
            bs = [rng.choice([0, 0xff, 0x80, 0xc0, 0xc1, 0xc4, 0x7f, 0x01, rng.randrange(256)]) for _ in range(n)]
            bl = rng.choice([8 * n, rng.randrange(0, 8 * n + 1), max(0, 8 * n - 1)])
            if op == 1031:
                pre = [rng.choice([-1, 0, 5, 2**40]), rng.choice([-1, 0, 7, 255, 65536, 2**62])]
            elif op == 1032:
                pre = [rng.choice([0, 1, 7, 8, 9, 63, 64, 65, 2**32])]
            elif op == 1033:
                a, b = rng.choice(fam), rng.choice(fam)
                pre = [min(a, b), max(a, b)]
            elif op == 1035:
                pre = [rng.choice(fam)]
            elif op == 1037:
                pre = rng.choice([[-1, -1], [0, 10], [5, -1], [0, 65536], [-1, 70000], [3, 3], [70000, 70000]])
            elif op == 1038:
                pre = [rng.choice([0, 1, 2, 5, 64, 300]), rng.randrange(2)]
            elif op in (1039, 1040):
                pre = rng.choice([[-1, -1, 0], [-1, -1, 1], [0, 5, 0], [3, 3, 0], [1, -1, 0], [0, 70000, 0], [2, 4, 1]])
            else:
                pre = []
            L.append("%d %s" % (op, " ".join(map(str, pre + [bl] + bs))))
        return L

    def ref_line(self, line):
        a = line.split()
        op = int(a[0])
        if op in REF:
            return " ".join([str(REF[op])] + a[1:])
        return None

    def canon(self, out):
        # a crash/abort of the child under the memory limit and the model's "unbounded allocation" are the same outcome
        if out.startswith("3 ") or out.endswith(" 3 32") or out.endswith(" 2 7") or out == "2 7":
            return "UNBOUNDED"
        return out

    def oracle(self, line, out, build, ref=None):
        a = list(map(int, line.split()))
        o = list(map(int, out.split()))
        op = a[0]
        if op >= 1031:
            if o[0] in (2, 3):
                cls = "raw_read_panic_%d_%s" % (op, "_".join(map(str, o[1:2])))
                if op in (1039, 1040) and (o[0] == 3 or o[1:2] in ([3], [7])):
                    lb, ub = a[1], a[2]
                    if (lb >= 0 or ub >= 0) and (ub < 0 or ub >= 65536):
                        # the 63/17-bit length of F10-1 read from untrusted input and allocated
                        cls = "octets_untrusted_length_alloc" if op == 1039 else "bitstring_untrusted_length_alloc"
                return (cls, "primitive reader panicked/crashed on arbitrary input: %s" % out)
            if o[0] == 0:
                bl = a[{1031: 3, 1032: 2, 1033: 3, 1034: 1, 1035: 2, 1036: 1, 1037: 3, 1038: 3, 1039: 4, 1040: 4}[op]]
                if o[1] > bl:
                    return ("read_past_len", "read succeeded at position %d beyond declared length %d" % (o[1], bl))
            return None
        w = parse_wr(o if op != 1007 or o[0] in (1, 2, 3) else o[1:])
        # reference
        if op == 1001:
            lb, ub, v = a[1], a[2], a[3]
            adm, refbits = self._ref_nnbi(lb, ub, v)
        elif op == 1002:
            bl, v = a[1], a[2]
            adm = 1 <= bl <= 64 and -(2 ** (bl - 1)) <= v <= 2 ** (bl - 1) - 1
            refbits = [((v % (1 << bl)) >> i) & 1 for i in range(bl - 1, -1, -1)] if adm else None
        else:
            r = list(map(int, ref.split())) if ref else [1]
            adm = r[0] == 0
            refbits = None
            if adm:
                nb = r[1]
                refbits = []
                for b in r[2:]:
                    for i in range(7, -1, -1):
                        refbits.append((b >> i) & 1)
                refbits = refbits[:nb]
        cls_base = {1001: "nnbi", 1002: "twos", 1003: "constrained", 1004: "normally_small", 1005: "semi", 1006: "unconstrained",
                    1007: "length", 1008: "index", 1009: "octets", 1019: "octets", 1010: "bitstring", 1020: "bitstring"}[op]
        if not adm:
            if w["w"] == 1:
                return None
            return (self._classify(cls_base, a, "inadmissible_not_err"),
                    "inadmissible arguments gave %s instead of an error" % ("a panic" if w["w"] in (2, 3) else "Ok"))
        if w["w"] != 0:
            return (self._classify(cls_base, a, "admissible_write_fails"),
                    "admissible arguments: write gave %s" % out[:60])
        got = []
        for b in w["bytes"]:
            for i in range(7, -1, -1):
                got.append((b >> i) & 1)
        got = got[:w["wlen"]]
        if got != refbits:
            return (self._classify(cls_base, a, "not_x691"),
                    "bits differ from X.691: got %d bits, reference %d bits%s" %
                    (len(got), len(refbits), "" if len(got) > 64 else " (%s vs %s)" % ("".join(map(str, got)), "".join(map(str, refbits)))))
        r = w["r"]
        if r[0] != 0:
            return (self._classify(cls_base, a, "read_back_fails"), "read-back gave %s" % r[:2])
        if r[1] != w["wlen"]:
            return (self._classify(cls_base, a, "read_consumes_other"), "read consumed %d of %d bits" % (r[1], w["wlen"]))
        val = r[2:]
        want = self._want(op, a)
        if want is not None and val != want:
            return (self._classify(cls_base, a, "read_value_differs"), "read back %s, wrote %s" % (val[:6], want[:6]))
        return None

    def _want(self, op, a):
        if op == 1001:
            return [a[3]]
        if op == 1002:
            return [a[2]]
        if op == 1003:
            return [a[3]]
        if op == 1004:
            return [a[1]]
        if op == 1005:
            return [a[2]]
        if op == 1006:
            return [a[1]]
        if op == 1007:
            v = a[3]
            return [v] if v < 16384 or a[2] >= 65536 or (a[2] >= 0 and a[2] < 65536) else [min(v // 16384, 4) * 16384]
        if op == 1008:
            return [a[3]]
        if op == 1009:
            n = a[4]
            return [n] + a[5:5 + n]
        if op == 1019:
            n, pa, pc = a[4], a[5], a[6]
            return [n] + [(pa * i + pc) % 256 for i in range(n)]
        return None  # bit strings: value compared through the model only

    def _ref_nnbi(self, lb, ub, v):
        # 11.3 / 11.5 / 11.7 as used by the primitive: both bounds absent = minimum octets with length; else a field for the range
        if lb < 0 and ub < 0:
            n = max(1, (v.bit_length() + 7) // 8)
            if n <= 127:
                hdr = [0] + [(n >> i) & 1 for i in range(6, -1, -1)]
            else:
                return False, None
            return True, hdr + [(v >> i) & 1 for i in range(8 * n - 1, -1, -1)]
        lo = lb if lb >= 0 else 0
        hi = ub if ub >= 0 else I64_MAX
        if not (lo <= v <= hi):
            return False, None
        k = (hi - lo).bit_length()
        return True, [((v - lo) >> i) & 1 for i in range(k - 1, -1, -1)]

    def _classify(self, base, a, what):
        op = a[0]
        # narrow classes for the deviations the design expects (section 11); everything else gets a generic class
        if base == "nnbi" and what == "inadmissible_not_err":
            return "nnbi_out_of_range_not_rejected"
        if base in ("nnbi", "semi", "normally_small") and what == "not_x691":
            v = a[3] if op == 1001 else (a[2] - a[1] if op == 1005 else a[1])
            if v == 0:
                return "zero_in_zero_octets"
        if base == "constrained":
            lb, ub = a[1], a[2]
            if ub - lb > I64_MAX:
                return "constrained_range_overflow"
            if ub == lb and what == "inadmissible_not_err":
                return "single_value_range_accepts_any"
        if base == "twos" and what == "inadmissible_not_err":
            return "twos_bad_bitlen"
        if base == "length":
            lb, ub, v = a[1], a[2], a[3]
            if (lb >= 0 or ub >= 0) and (ub < 0 or ub >= 65536):
                return "length_semi_or_large_bound"
            if lb < 0 and ub < 0 and v >= 16384 * 256:
                return "length_fragment_count_truncated"
        if base == "index" and a[1] == 0:
            return "index_zero_std_variants"
        if base == "octets":
            lb, ub = a[1], a[2]
            if (lb >= 0 or ub >= 0) and (ub < 0 or ub >= 65536):
                return "octets_semi_or_large_bound"
        if base == "bitstring":
            lb, ub, n = a[1], a[2], a[5]
            if n >= 16384:
                return "bitstring_16k"
            if (lb >= 0 or ub >= 0) and (ub < 0 or ub >= 65536):
                return "bitstring_semi_or_large_bound"
        return base + "_" + what

    def nontrivial(self, line, out):
        o = out.split()
        if line.startswith("103") or line.startswith("104"):
            return o[:1] == ["0"] and int(o[1]) >= 8
        return o[:1] == ["0"] and o[1] != "0"


SPEC = C10()
