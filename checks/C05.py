from vlib import Spec
import uperlib as U
import dectype

SENTINEL = 0xA5
PALETTE_ADD = None


def add_palette(rng, octets):
    """a type/value pair whose encoding has roughly `octets` octets (as an open type)"""
    if octets <= 1:
        t = rng.choice([("bool",), ("int", 0, (True, 0, True, 7, False)), ("enum", 3, (3, False))])
        return t, U.gen_val(rng, t, "valid")
    if octets <= 9 and rng.random() < 0.3:
        t = ("int", 7, (False, 0, False, 0, False))
        return t, ("int", rng.choice([1 << (8 * (octets - 1) - 2), -(1 << (8 * (octets - 1) - 3))]) if octets > 1 else 0)
    n = max(0, octets - (1 if octets <= 128 else 2))
    t = ("oct", (-1, -1, False))
    return t, ("oct", [rng.randrange(256) for _ in range(n)])


def root_fields(rng):
    n = rng.randrange(1, 4)    # at least one root component: the crate cannot express a marker before the first one (F16-2)
    fs = []
    for _ in range(n):
        ft = rng.choice([("bool",), ("int", 0, (True, 0, True, 255, False)), ("oct", (0, 3, False)), ("str", U.CS_IA5, (0, 3, False)),
                         ("enum", 3, (3, False)), ("null",)])
        r = rng.random()
        fk = "req" if r < 0.5 else ("opt" if r < 0.8 else "def")
        d = U.gen_val(rng, ft, "valid") if fk == "def" else None
        fs.append((fk, d, ft))
    return fs


def mk_seq(fields, nroot):
    ea = nroot - 1
    so, fc, ea2 = U.consistent_seq(fields, ea)
    return ("seq", fields, (so, fc, ea2))


# ---------------------------------------------------------------- schema pairs and the contexts they are nested in
# A pair is (t1, t2, mk): t1 the older type, t2 = t1 with appended additions/alternatives/items at one or more (nested)
# positions, mk(rng, punk) -> (a value of t1, a value of t2).  punk = probability that a CHOICE/ENUMERATED position of the
# t2 value takes an index unknown to t1 (None: uniform over all indices of t2, the top-level distribution).
# A field of a SEQUENCE under construction is (fk, default, pair, probability of being present | None).
SIZES = [1, 2, 3, 5, 8, 20, 63, 64, 70, 126, 127, 128, 129, 130, 200, 255, 256, 300]
SIBLINGS = [("bool",), ("int", 0, (True, 0, True, 255, False)), ("oct", (0, 3, False)), ("str", U.CS_IA5, (0, 3, False)),
            ("enum", 3, (3, False)), ("null",)]
LIST_SIZES = [(-1, -1, False), (0, 3, False), (0, 3, True), (1, 4, False), (1, 4, True), (0, 127, False), (0, -1, False), (-1, 20, False)]
MAX_OCTETS = 12000      # stay well below 16K octets per open type (F01-3)


def valfor(rng, t):
    if t[0] == "oct":
        return ("oct", [rng.randrange(256) for _ in range(rng.choice([0, 1, 5, 126, 127, 128, 200, 298]))])
    return U.gen_val(rng, t, "valid")


def const_pair(t, v=None, mkv=None):
    """a type that is the same in both versions (value v, or a fresh one per call)"""
    def mk(rng, punk):
        x = v if v is not None else (mkv(rng, t) if mkv else U.gen_val(rng, t, "valid"))
        return x, x
    return (t, t, mk)


def sibling(rng):
    ft = rng.choice(SIBLINGS)
    r = rng.random()
    fk = "req" if r < 0.5 else ("opt" if r < 0.8 else "def")
    d = U.gen_val(rng, ft, "valid") if fk == "def" else None
    return (fk, d, const_pair(ft), 0.6)


def palette_field(rng, fk):
    t, v = add_palette(rng, rng.choice(SIZES))
    return (fk, None, const_pair(t, v), None)


def known_add(rng):
    return palette_field(rng, "opt" if rng.random() < 0.85 else "req")


def build_seq(pf, ea, n1=None):
    """SEQUENCE pair over the fields pf (root = pf[:ea+1], everything when ea < 0); t2 has all fields, t1 the first n1"""
    n = len(pf)
    n1 = n if n1 is None else n1
    f1 = [(fk, d, P[0]) for fk, d, P, _ in pf[:n1]]
    f2 = [(fk, d, P[1]) for fk, d, P, _ in pf]
    t1 = ("seq", f1, U.consistent_seq(f1, ea))
    t2 = ("seq", f2, U.consistent_seq(f2, ea))
    first = ea + 1 if ea >= 0 else n

    def present(rng, count):
        # the encoder refuses "first addition absent, a later one present"; otherwise a prefix or an arbitrary subset
        if count == 0:
            return []
        p = count if rng.random() < 0.3 else rng.randrange(0, count + 1)
        pres = [i < p for i in range(count)]
        if p >= 1 and rng.random() < 0.25:
            pres = [True] + [rng.random() < 0.5 for _ in range(count - 1)]
        for i in range(count):
            fk, _, _, pp = pf[first + i]
            if fk == "req" or (pp is not None and rng.random() < pp):
                pres[i] = True
        if any(pres):
            pres[0] = True      # additions are never DEFAULT here, so "present" is what the encoder sees
        return pres

    def mk(rng, punk):
        v1, v2 = [], []
        for fk, d, P, pp in pf[:first]:
            a, b = P[2](rng, punk)
            if fk == "opt" and rng.random() >= pp:
                a = b = None
            elif fk == "def" and rng.random() < 0.4:
                a = b = d
            v1.append(a)
            v2.append(b)
        adds = [pf[i][2][2](rng, punk) for i in range(first, n)]
        pr1 = present(rng, n1 - first)
        pr2 = present(rng, n - first)
        v1 += [adds[i][0] if pr1[i] else None for i in range(n1 - first)]
        v2 += [adds[i][1] if pr2[i] else None for i in range(n - first)]
        return ("seq", v1), ("seq", v2)
    return (t1, t2, mk)


def seq_pair(rng, q, inner=None):
    """V1 = root + k1 additions, V2 = root + k2 > k1 additions; `inner`: a pair that evolves at the same time, as a root
    component or as an addition known to both versions"""
    root = [(fk, d, const_pair(ft), 0.6) for fk, d, ft in root_fields(rng)]
    slot = None
    if inner is not None:
        slot = "root" if rng.random() < 0.65 else "add"
        if slot == "root":
            root.insert(rng.randrange(len(root) + 1), ("req" if rng.random() < 0.6 else "opt", None, inner, 0.85))
    nroot = len(root)
    kmax = 8 - nroot
    k1 = rng.randrange(1 if slot == "add" else 0, min(3, kmax) + 1)
    if kmax <= k1:
        return None
    k2 = rng.randrange(k1 + 1, min(kmax, k1 + (4 if q else 8)) + 1)
    adds = []
    for i in range(k2):
        # additions the older version does not know are OPTIONAL (a mandatory one could not be absent)
        adds.append(palette_field(rng, "opt" if (i >= k1 or rng.random() < 0.85) else "req"))
    if slot == "add":
        adds[rng.randrange(k1)] = ("opt" if rng.random() < 0.85 else "req", None, inner, 0.85)
    return build_seq(root + adds, nroot - 1, nroot + k1)


def choice_pair(rng, inner=None):
    std = rng.randrange(1, 5)
    n1 = std + rng.randrange(0, 2)
    n2 = min(8, n1 + rng.randrange(1, 4))
    alts = [const_pair(add_palette(rng, rng.choice(SIZES))[0], mkv=valfor) for _ in range(n2)]
    j = None
    if inner is not None:
        j = rng.randrange(n1)       # a root alternative, or an extension alternative both versions know
        alts[j] = inner

    def pick(rng, hi):
        if j is not None and rng.random() < 0.7:
            return j
        return rng.randrange(hi)

    def mk(rng, punk):
        i1 = pick(rng, n1)
        if punk is None:
            i2 = rng.randrange(n2)
        elif rng.random() < punk:
            i2 = rng.randrange(n1, n2)
        else:
            i2 = pick(rng, n1)
        return ("choice", i1, alts[i1][2](rng, punk)[0]), ("choice", i2, alts[i2][2](rng, punk)[1])
    return (("choice", [A[0] for A in alts[:n1]], (std, True)), ("choice", [A[1] for A in alts], (std, True)), mk)


def enum_pair(rng):
    std = rng.choice([1, 2, 3, 5, 8])
    n1 = std + rng.randrange(0, 3)
    n2 = n1 + rng.choice([1, 2, 60, 70])

    def mk(rng, punk):
        i1 = rng.randrange(n1)
        if punk is None:
            i2 = rng.randrange(n2)
        else:
            i2 = rng.randrange(n1, n2) if rng.random() < punk else rng.randrange(n1)
        return ("enum", i1), ("enum", i2)
    return (("enum", n1, (std, True)), ("enum", n2, (std, True)), mk)


def base_pair(rng, q, inner=None):
    r = rng.random()
    if inner is not None:
        return seq_pair(rng, q, inner) if r < 0.7 else choice_pair(rng, inner)
    if r < 0.55:
        return seq_pair(rng, q)
    return choice_pair(rng) if r < 0.8 else enum_pair(rng)


def ctx_seqroot(rng, P, also=None):
    """(a) root component of an outer SEQUENCE; `also`: a second, independent pair evolving in the same SEQUENCE"""
    me = [("req" if rng.random() < 0.6 else "opt", None, P, 0.85)]
    if also is not None:
        me += [sibling(rng) for _ in range(rng.randrange(0, 2))] + [("req" if rng.random() < 0.6 else "opt", None, also, 0.85)]
    pf = [sibling(rng) for _ in range(rng.randrange(0, 3))] + me + [sibling(rng) for _ in range(rng.randrange(0, 3))]
    if rng.random() < 0.5:
        return build_seq(pf, -1)
    return build_seq(pf + [known_add(rng) for _ in range(rng.randrange(0, 3))], len(pf) - 1)


def ctx_list(rng, P):
    """(b) element type of a SEQUENCE OF with 0..3 elements, every element with a value of its own"""
    key = rng.choice(LIST_SIZES)

    def mk(rng, punk):
        xs = [P[2](rng, punk) for _ in range(rng.randrange(max(key[0], 0), 4))]
        return ("list", [x[0] for x in xs]), ("list", [x[1] for x in xs])
    return (("list", P[0], key), ("list", P[1], key), mk)


def ctx_choice(rng, P):
    """(c) alternative of an outer CHOICE: a root alternative, or an extension alternative (open type)"""
    std = rng.randrange(1, 5)
    if rng.random() < 0.5:
        ext, n = True, std + rng.randrange(1, 3)
        j = rng.randrange(std, n)
    else:
        ext = rng.random() < 0.5
        n = std + (rng.randrange(0, 3) if ext else 0)
        j = rng.randrange(std)
    alts = [const_pair(add_palette(rng, rng.choice(SIZES))[0], mkv=valfor) for _ in range(n)]
    alts[j] = P

    def mk(rng, punk):
        i = j if rng.random() < 0.85 else rng.randrange(n)
        a, b = alts[i][2](rng, punk)
        return ("choice", i, a), ("choice", i, b)
    return (("choice", [A[0] for A in alts], (std, ext)), ("choice", [A[1] for A in alts], (std, ext)), mk)


def ctx_seqext(rng, P):
    """(d) extension addition of an outer extensible SEQUENCE (inside an open type), additions before and after it"""
    root = [sibling(rng) for _ in range(rng.randrange(1, 4))]
    me = ("opt" if rng.random() < 0.85 else "req", None, P, 0.85)
    pf = root + [known_add(rng) for _ in range(rng.randrange(0, 3))] + [me] + [known_add(rng) for _ in range(rng.randrange(0, 3))]
    return build_seq(pf, len(root) - 1)


def ctx_any(rng, P, which=None):
    which = which or rng.choice("abcd")
    return {"a": ctx_seqroot, "b": ctx_list, "c": ctx_choice, "d": ctx_seqext}[which](rng, P)


def nested_pair(rng, q):
    """-> (family, pair)"""
    P = base_pair(rng, q)
    if P is None:
        return None, None
    fam = rng.choice("abcde")
    if fam != "e":
        return fam, ctx_any(rng, P, fam)
    r = rng.random()
    if r < 0.45:        # two contexts, one inside the other
        return "e:ctx-in-ctx", ctx_any(rng, ctx_any(rng, P))
    if r < 0.8:         # an evolving SEQUENCE/CHOICE inside an evolving SEQUENCE/CHOICE (root component, known addition/alternative)
        Q = base_pair(rng, q, P)
        if Q is None:
            return None, None
        return "e:evolving-in-evolving", (ctx_any(rng, Q) if rng.random() < 0.4 else Q)
    Q = base_pair(rng, q)   # two independent pairs evolving as components of one SEQUENCE
    if Q is None:
        return None, None
    R = ctx_seqroot(rng, P, Q)
    return "e:two-siblings", (ctx_list(rng, R) if rng.random() < 0.3 else R)


def on_grid(t):
    k = t[0]
    if k == "int":
        return t[2] in U.G.NUM
    if k == "str":
        return t[2] in U.G.SIZE
    if k in ("oct", "bits"):
        return t[1] in U.G.SIZE
    if k == "list":
        return t[2] in U.G.SIZE and on_grid(t[1])
    if k == "seq":
        return t[2] in U.G.SEQ and all(on_grid(ft) for _, _, ft in t[1])
    if k == "choice":
        return t[2] in U.G.CHOICE and 1 <= len(t[1]) <= 8 and all(on_grid(a) for a in t[1])
    if k == "enum":
        return t[2] in U.G.ENUM
    return True


def octets(v):
    if v is None:
        return 0
    k = v[0]
    if k in ("oct", "str"):
        return len(v[1]) + 2
    if k in ("list", "seq"):
        return 1 + sum(octets(x) for x in v[1])
    if k == "choice":
        return 2 + octets(v[2])
    return 8 if k == "int" else 1


class _UnknownIndex(Exception):
    pass


class C05(Spec):
    prop = "C05"
    coq_targets = ["Props/C05.vo"]
    prop_module = "Props.C05"
    theorems = ['C05_beyond_transmitted_is_absent_partial', 'C05_no_extension_is_absent_partial', 'C05_skip_nothing_partial', 'C05_skip_absent_step_partial', 'C05_skip_present_step_partial', 'C05_forward', 'C05_backward', 'C05_sequence_compat', 'C05_sentinel_forward', 'C05_sentinel_backward', 'C05_extends_is_deep', 'C05_extends_deep_trans', 'C05_forward_deep', 'C05_backward_deep', 'C05_sentinel_forward_deep', 'C05_sentinel_backward_deep']
    builds = [("default", "dev"), ("default", "release")]
    timeout_per_chunk = 600
    xcheck_n = 60
    level_text = ("Forward/backward compatibility statements over the L2 reader model for schema pairs related by appended extension "
                  "additions / alternatives / items, at top level and at any nesting depth (congruence relation extends_deep: components of SEQUENCE/SET incl. open types, SEQUENCE OF elements, CHOICE alternatives, several at once); model tied to the crate by differential execution of write-under-A / read-under-B with a "
                  "trailing sentinel, judged by an oracle computed from the pair.")
    rule = ("pairs (V1, V2 = V1 + k additions), k = 1..8 (quick 1..4), addition encodings of 1..300 octets (covering 127/128 and the high bits of the "
            "first length octet), followed by a sentinel; both directions; CHOICE and ENUMERATED extension pairs. "
            "About 40% of the pairs are nested in an outer context that is the same in both versions (A = Ctx[V1], B = Ctx[V2]): (a) root component "
            "(required/OPTIONAL, siblings before/after) of a plain or extensible SEQUENCE, (b) element of a SEQUENCE OF with 0..3 elements each with its own "
            "value, (c) root or extension alternative of a CHOICE, (d) extension addition of a SEQUENCE with additions before/after, (e) two such contexts "
            "inside each other, an evolving SEQUENCE/CHOICE with an evolving root component / known addition / known alternative, or two pairs evolving as "
            "siblings; the oracle pads (forward) / drops (backward) the additions at every nested position and accepts InvalidChoiceIndex only when the "
            "written value selects an unknown alternative/item at a position the reader decodes (a minority of the nested cases). "
            "non-trivial = the written value has at least one addition present (backward) / the reader knows more additions than were written (forward)")
    assumptions_text = ["descriptor constants consistent with the field list", "root components must stay within the constant grid (<= 8 fields)"]

    def gen(self, rng, tier):
        q = tier == "quick"
        L = []
        n = 1500 if q else 50000
        stats = {}
        while len(L) < n:
            if rng.random() < 0.6:
                # the pair is the top-level type
                kind = rng.random()
                fam = "top"
                P = seq_pair(rng, q) if kind < 0.75 else (choice_pair(rng) if kind < 0.9 else enum_pair(rng))
                punk = None
            else:
                # the pair sits inside an outer context that is the same in both versions (families a..e)
                fam, P = nested_pair(rng, q)
                # unknown CHOICE/ENUMERATED indices at nested positions: a minority of the cases
                punk = 0.5 if rng.random() < 0.3 else 0.0
            if P is None or not on_grid(P[0]) or not on_grid(P[1]):
                continue
            t1, t2, mk = P
            v1, v2 = mk(rng, punk)
            if max(octets(v1), octets(v2)) > MAX_OCTETS:
                continue
            stats[fam] = stats.get(fam, 0) + 1
            # forward: write under Ctx[V1], read under Ctx[V2]
            L.append(U.line(1203, U.enc_ty(t1) + U.enc_ty(t2) + U.enc_val(v1)))
            # backward: write under Ctx[V2], read under Ctx[V1]
            L.append(U.line(1203, U.enc_ty(t2) + U.enc_ty(t1) + U.enc_val(v2)))
        self.gen_stats = stats
        return L

    def valfor(self, rng, t):
        return valfor(rng, t)

    def canon(self, out):
        if out.startswith("3 ") or out.endswith(" 2 7") or out.endswith(" 2 3") or out == "2 7":
            return "UNBOUNDED"
        return out

    def oracle(self, line, out, build):
        a = list(map(int, line.split()))
        o = list(map(int, out.split()))
        ta, i = dectype.dec_ty(a, 1)
        tb, i = dectype.dec_ty(a, i)
        v, i = U.dec_val(a, i)
        if o[0] != 0:
            return None       # the writer refused the value: nothing to decode (C03/C06 judge refusals)
        nb = o[3]
        j = 4 + nb
        forward = self._extends(ta, tb)
        direction = "forward" if forward else "backward"
        r = o[j:]
        if r[0] in (2, 3):
            return (direction + "_reader_panics", "reader panicked/crashed: %s" % r[:2])
        if r[0] == 1:
            if not forward and self._unknown_index(ta, tb, v) and r[1] == 7:
                return None       # unknown extension alternative/item (at any position the reader decodes) reported as an error: allowed
            return (direction + "_decode_fails", "reader failed with error kind %d" % r[1])
        got, j2 = U.dec_val(r, 1)
        want = self._expected(ta, tb, v, forward)
        if want is None:
            return (direction + "_unknown_not_error", "unknown extension alternative/item decoded to %s" % str(got)[:60])
        if got != want:
            return (direction + "_wrong_value", "decoded %s, expected %s" % (str(got)[:100], str(want)[:100]))
        s = r[j2:]
        if s[:2] != [0, SENTINEL]:
            return (direction + "_sentinel_misread", "data after the message decodes wrongly: %s" % s[:2])
        if s[2:4] != [0, 0]:
            return (direction + "_bits_left_over", "reader does not end at the end of the message: %s" % s[2:4])
        return None

    def _dir(self, ta, tb):
        """+1: tb is ta with appended additions/alternatives/items somewhere (forward), -1: the other way round (backward),
        0: no difference.  The two types are walked in parallel; the first position where they differ decides."""
        k = ta[0]
        if k != tb[0]:
            return 0
        if k in ("seq", "choice"):
            xa = [f[2] for f in ta[1]] if k == "seq" else ta[1]
            xb = [f[2] for f in tb[1]] if k == "seq" else tb[1]
            for fa, fb in zip(xa, xb):
                d = self._dir(fa, fb)
                if d:
                    return d
            return (len(xb) > len(xa)) - (len(xb) < len(xa))
        if k == "list":
            return self._dir(ta[1], tb[1])
        if k == "enum":
            return (tb[1] > ta[1]) - (tb[1] < ta[1])
        return 0

    def _extends(self, ta, tb):
        """is tb = ta + appended additions at some (nested) positions (forward direction)?"""
        return self._dir(ta, tb) >= 0

    def _unknown_index(self, ta, tb, v):
        """does the written value select, at a position the reader decodes, a CHOICE alternative / ENUMERATED item the reader does not know?"""
        try:
            self._exp(ta, tb, v, False)
        except _UnknownIndex:
            return True
        return False

    def _expected(self, ta, tb, v, forward):
        """the value the reader has to produce; None when it has no value for it (unknown alternative/item)"""
        try:
            return self._exp(ta, tb, v, forward)
        except _UnknownIndex:
            return None

    def _exp(self, ta, tb, v, forward):
        """v (of type ta) as seen through tb: additions unknown to the writer absent (forward), additions unknown to the
        reader dropped (backward), at every nested position"""
        k = ta[0]
        if k == "seq":
            out = []
            for (_, _, fa), (_, _, fb), x in zip(ta[1], tb[1], v[1]):
                out.append(None if x is None else self._exp(fa, fb, x, forward))
            if forward:
                for fk, d, ft in tb[1][len(ta[1]):]:
                    # a mandatory addition unknown to the writer has no defined expectation ("?" never compares equal)
                    out.append(None if fk == "opt" else (d if fk == "def" else "?"))
            return ("seq", out)
        if k == "choice":
            if v[1] >= len(tb[1]):
                raise _UnknownIndex()
            return ("choice", v[1], self._exp(ta[1][v[1]], tb[1][v[1]], v[2], forward))
        if k == "list":
            return ("list", [self._exp(ta[1], tb[1], x, forward) for x in v[1]])
        if k == "enum":
            if v[1] >= tb[1]:
                raise _UnknownIndex()
            return v
        return v

    def nontrivial(self, line, out):
        return out.startswith("0")


SPEC = C05()
