from vlib import Spec
import uperlib as U
import dectype

SENTINEL = 0xA5
PALETTE_ADD = None


def add_palette(rng, octets):
    """a type/value pair whose encoding has roughly `octets` octets (as an open type)"""
    if octets <= 1:
        t = rng.choice([("bool",), ("int", 0, (True, 0, True, 7, False)), ("enum", 3, (3, False))])
        return t, U.gen_val(rng, t, "valid")
    if octets <= 9 and rng.random() < 0.3:
        t = ("int", 7, (False, 0, False, 0, False))
        return t, ("int", rng.choice([1 << (8 * (octets - 1) - 2), -(1 << (8 * (octets - 1) - 3))]) if octets > 1 else 0)
    n = max(0, octets - (1 if octets <= 128 else 2))
    t = ("oct", (-1, -1, False))
    return t, ("oct", [rng.randrange(256) for _ in range(n)])


def root_fields(rng):
    n = rng.randrange(1, 4)    # at least one root component: the crate cannot express a marker before the first one (F16-2)
    fs = []
    for _ in range(n):
        ft = rng.choice([("bool",), ("int", 0, (True, 0, True, 255, False)), ("oct", (0, 3, False)), ("str", U.CS_IA5, (0, 3, False)),
                         ("enum", 3, (3, False)), ("null",)])
        r = rng.random()
        fk = "req" if r < 0.5 else ("opt" if r < 0.8 else "def")
        d = U.gen_val(rng, ft, "valid") if fk == "def" else None
        fs.append((fk, d, ft))
    return fs


def mk_seq(fields, nroot):
    ea = nroot - 1
    so, fc, ea2 = U.consistent_seq(fields, ea)
    return ("seq", fields, (so, fc, ea2))


class C05(Spec):
    prop = "C05"
    coq_targets = ["Props/C05.vo"]
    prop_module = "Props.C05"
    theorems = ['C05_beyond_transmitted_is_absent_partial', 'C05_no_extension_is_absent_partial', 'C05_skip_nothing_partial', 'C05_skip_absent_step_partial', 'C05_skip_present_step_partial', 'C05_forward', 'C05_backward', 'C05_sequence_compat', 'C05_sentinel_forward', 'C05_sentinel_backward']
    builds = [("default", "dev"), ("default", "release")]
    timeout_per_chunk = 600
    xcheck_n = 60
    level_text = ("Forward/backward compatibility statements over the L2 reader model for schema pairs related by appended extension "
                  "additions / alternatives / items; model tied to the crate by differential execution of write-under-A / read-under-B with a "
                  "trailing sentinel, judged by an oracle computed from the pair.")
    rule = ("pairs (V1, V2 = V1 + k additions), k = 1..8 (quick 1..4), addition encodings of 1..300 octets (covering 127/128 and the high bits of the "
            "first length octet), nested in an outer SEQUENCE followed by a sentinel; both directions; CHOICE and ENUMERATED extension pairs. "
            "non-trivial = the written value has at least one addition present (backward) / the reader knows more additions than were written (forward)")
    assumptions_text = ["descriptor constants consistent with the field list", "root components must stay within the constant grid (<= 8 fields)"]

    def gen(self, rng, tier):
        q = tier == "quick"
        L = []
        n = 1500 if q else 50000
        sizes = [1, 2, 3, 5, 8, 20, 63, 64, 70, 126, 127, 128, 129, 130, 200, 255, 256, 300]
        while len(L) < n:
            kind = rng.random()
            if kind < 0.75:
                root = root_fields(rng)
                kmax = 8 - len(root)
                k1 = rng.randrange(0, min(3, kmax) + 1)
                k2 = rng.randrange(k1 + 1, min(kmax, k1 + (4 if q else 8)) + 1) if kmax > k1 else None
                if k2 is None:
                    continue
                adds = []
                for _ in range(k2):
                    t, v = add_palette(rng, rng.choice(sizes))
                    # additions the older version does not know are OPTIONAL (a mandatory one could not be absent)
                    fk = "opt" if (len(adds) >= k1 or rng.random() < 0.85) else "req"
                    adds.append(((fk, None, t), v))
                v1_t = mk_seq(root + [a[0] for a in adds[:k1]], len(root))
                v2_t = mk_seq(root + [a[0] for a in adds], len(root))
                if v1_t[2] not in U.G.SEQ or v2_t[2] not in U.G.SEQ or len(root) == 0 and False:
                    continue
                rootv = []
                for fk, d, ft in root:
                    if fk == "req":
                        rootv.append(U.gen_val(rng, ft, "valid"))
                    elif fk == "opt":
                        rootv.append(U.gen_val(rng, ft, "valid") if rng.random() < 0.6 else None)
                    else:
                        rootv.append(d if rng.random() < 0.4 else U.gen_val(rng, ft, "valid"))
                # presence of additions: a prefix is present (anything else is refused by the encoder)
                def addvals(count, npresent):
                    out = []
                    for i in range(count):
                        (fk, _, t), v = adds[i]
                        out.append(v if (i < npresent or fk == "req") else None)
                    return out
                # forward: write under V1, read under V2
                p1 = rng.randrange(0, k1 + 1)
                L.append(U.line(1203, U.enc_ty(v1_t) + U.enc_ty(v2_t) + U.enc_val(("seq", rootv + addvals(k1, p1)))))
                # backward: write under V2, read under V1
                p2 = rng.randrange(0, k2 + 1)
                L.append(U.line(1203, U.enc_ty(v2_t) + U.enc_ty(v1_t) + U.enc_val(("seq", rootv + addvals(k2, p2)))))
            elif kind < 0.9:
                std = rng.randrange(1, 5)
                n1 = std + rng.randrange(0, 2)
                n2 = min(8, n1 + rng.randrange(1, 4))
                alts = []
                for _ in range(n2):
                    t, _ = add_palette(rng, rng.choice(sizes))
                    alts.append(t)
                t1 = ("choice", alts[:n1], (std, True))
                t2 = ("choice", alts, (std, True))
                i1 = rng.randrange(n1)
                L.append(U.line(1203, U.enc_ty(t1) + U.enc_ty(t2) + U.enc_val(("choice", i1, self.valfor(rng, alts[i1])))))
                i2 = rng.randrange(n2)
                L.append(U.line(1203, U.enc_ty(t2) + U.enc_ty(t1) + U.enc_val(("choice", i2, self.valfor(rng, alts[i2])))))
            else:
                std = rng.choice([1, 2, 3, 5, 8])
                n1 = std + rng.randrange(0, 3)
                n2 = n1 + rng.choice([1, 2, 60, 70])
                t1 = ("enum", n1, (std, True))
                t2 = ("enum", n2, (std, True))
                L.append(U.line(1203, U.enc_ty(t1) + U.enc_ty(t2) + U.enc_val(("enum", rng.randrange(n1)))))
                L.append(U.line(1203, U.enc_ty(t2) + U.enc_ty(t1) + U.enc_val(("enum", rng.randrange(n2)))))
        return L

    def valfor(self, rng, t):
        if t[0] == "oct":
            return ("oct", [rng.randrange(256) for _ in range(rng.choice([0, 1, 5, 126, 127, 128, 200, 298]))])
        return U.gen_val(rng, t, "valid")

    def canon(self, out):
        if out.startswith("3 ") or out.endswith(" 2 7") or out.endswith(" 2 3") or out == "2 7":
            return "UNBOUNDED"
        return out

    def oracle(self, line, out, build):
        a = list(map(int, line.split()))
        o = list(map(int, out.split()))
        ta, i = dectype.dec_ty(a, 1)
        tb, i = dectype.dec_ty(a, i)
        v, i = U.dec_val(a, i)
        if o[0] != 0:
            return None       # the writer refused the value: nothing to decode (C03/C06 judge refusals)
        nb = o[3]
        j = 4 + nb
        forward = self._extends(ta, tb)
        direction = "forward" if forward else "backward"
        r = o[j:]
        if r[0] in (2, 3):
            return (direction + "_reader_panics", "reader panicked/crashed: %s" % r[:2])
        if r[0] == 1:
            if not forward and ta[0] in ("choice", "enum") and self._unknown_index(ta, tb, v) and r[1] == 7:
                return None       # unknown extension alternative/item reported as an error: allowed
            return (direction + "_decode_fails", "reader failed with error kind %d" % r[1])
        got, j2 = U.dec_val(r, 1)
        want = self._expected(ta, tb, v, forward)
        if want is None:
            return (direction + "_unknown_not_error", "unknown extension alternative/item decoded to %s" % str(got)[:60])
        if got != want:
            return (direction + "_wrong_value", "decoded %s, expected %s" % (str(got)[:100], str(want)[:100]))
        s = r[j2:]
        if s[:2] != [0, SENTINEL]:
            return (direction + "_sentinel_misread", "data after the message decodes wrongly: %s" % s[:2])
        if s[2:4] != [0, 0]:
            return (direction + "_bits_left_over", "reader does not end at the end of the message: %s" % s[2:4])
        return None

    def _extends(self, ta, tb):
        """is tb = ta + appended additions (forward direction)?"""
        if ta[0] == "seq":
            return len(tb[1]) >= len(ta[1])
        if ta[0] == "choice":
            return len(tb[1]) >= len(ta[1])
        return tb[1] >= ta[1]

    def _unknown_index(self, ta, tb, v):
        if ta[0] == "choice":
            return v[1] >= len(tb[1])
        return v[1] >= tb[1]

    def _expected(self, ta, tb, v, forward):
        if ta[0] == "seq":
            if forward:
                extra = []
                for fk, d, ft in tb[1][len(ta[1]):]:
                    extra.append(None if fk == "opt" else "?")
                if "?" in extra:
                    return ("seq", v[1] + extra)    # a mandatory addition unknown to the writer: no defined expectation, compared loosely below
                return ("seq", v[1] + extra)
            return ("seq", v[1][:len(tb[1])])
        if ta[0] == "choice":
            if v[1] >= len(tb[1]):
                return None
            return v
        if v[1] >= tb[1]:
            return None
        return v

    def nontrivial(self, line, out):
        return out.startswith("0")


SPEC = C05()
