from vlib import Spec

KINDS = {0: (0, 2**8 - 1), 1: (-2**7, 2**7 - 1), 2: (0, 2**16 - 1), 3: (-2**15, 2**15 - 1),
         4: (0, 2**32 - 1), 5: (-2**31, 2**31 - 1), 6: (0, 2**64 - 1), 7: (-2**63, 2**63 - 1)}
TAGS = list(range(0, 34)) + [47, 62, 63]
BIGTAGS = [64, 65, 127, 128, 200, 255, 256, 300]


def boundaries(lo, hi):
    s = set()
    for k in range(0, 65):
        for d in (-2, -1, 0, 1, 2):
            for sign in (1, -1):
                v = sign * (2 ** k) + d
                if lo <= v <= hi:
                    s.add(v)
    for v in (lo, lo + 1, hi - 1, hi, 0, 1, -1, 127, 128, 255, 256):
        if lo <= v <= hi:
            s.add(v)
    return sorted(s)


class C20(Spec):
    prop = "C20"
    coq_targets = ["Props/C20.vo"]
    prop_module = "Props.C20"
    theorems = ["C20_length", "C20_ident", "C20_ident_exact", "C20_ident_value_bound", "C20_boolean", "C20_boolean_nonzero", "C20_int", "C20_enum"]
    builds = [("default", "dev"), ("default", "release")]
    level_text = ("Round-trip theorems for all u64 lengths, all tags < 64 of the four classes, all values of the "
                  "eight integer kinds and all enumerated indices, proved in Coq about a hand-written model of "
                  "basic/distinguished/mod.rs and the implemented arms of rw/der.rs; the model is tied to the "
                  "crate by differential execution (dev and release builds).")
    rule = ("lengths within +-2 of 2^(7k) and 2^(8k) and random u64; identifiers 4 classes x numbers {0..33,47,62,63} "
            "(plus numbers >= 64 for model/impl agreement only); integer boundary families (+-2^k+-2, type extremes) for all "
            "8 kinds; enumerated indices 0..300; raw reader inputs (random and mutated bytes). "
            "non-trivial = the op wrote at least one byte and the read-back succeeded with a non-zero value or non-empty tail, "
            "or a raw read reached a decision beyond the first byte; distinct = distinct case line")
    assumptions_text = ["io::Read/io::Write for &[u8]/Vec<u8> behave as read_exact/write_all on byte lists",
                        "64-bit target"]

    def gen(self, rng, tier):
        n_rand = 300 if tier == "quick" else 6000
        L = []

        def tail():
            return [rng.randrange(256) for _ in range(rng.choice([0, 0, 1, 2, 5]))]
        # lengths
        ls = set([0, 1, 126, 127, 128, 129, 254, 255, 256, 257])
        for k in range(0, 10):
            for base in (2 ** (7 * k), 2 ** (8 * k)):
                for d in range(-2, 3):
                    v = base + d
                    if 0 <= v < 2 ** 64:
                        ls.add(v)
        ls.add(2 ** 64 - 1)
        ls.add(2 ** 64 - 2)
        for _ in range(n_rand):
            ls.add(rng.randrange(2 ** rng.randrange(1, 65)))
        for l in sorted(ls):
            L.append("2001 %d %s" % (l, " ".join(map(str, tail()))))
        # identifiers
        for c in range(4):
            for n in TAGS + BIGTAGS:
                L.append("2002 %d %d %s" % (c, n, " ".join(map(str, tail()))))
        # booleans
        for c in range(4):
            for n in (TAGS if tier != "quick" else TAGS[::3]):
                for b in (0, 1):
                    L.append("2003 %d %d %d %s" % (c, n, b, " ".join(map(str, tail()))))
        for b in range(256):
            L.append("2012 %d 7" % b)
            L.append("2016 1 1 1 %d 9" % b)
        # numbers
        for k, (lo, hi) in KINDS.items():
            vals = boundaries(lo, hi)
            for _ in range(n_rand // 4):
                vals.append(rng.randint(lo, hi))
            for v in vals:
                c = rng.randrange(4)
                n = rng.choice(TAGS)
                L.append("2004 %d %d %d %d %s" % (k, c, n, v, " ".join(map(str, tail()))))
        # enumerated
        for i in list(range(0, 301)) + [2 ** 32 - 1, 2 ** 32, 2 ** 63, 2 ** 64 - 1]:
            for variants in (min(i + 1, 2 ** 64 - 1), i, 1000):
                L.append("2005 %d %d %d %d %s" % (rng.randrange(4), rng.choice(TAGS), variants, i, " ".join(map(str, tail()))))
        # raw reads (also serves C04 for DER)
        for _ in range(n_rand * 2):
            n = rng.randrange(0, 12)
            bs = [rng.choice([0, 1, 2, 0x7f, 0x80, 0x81, 0x82, 0x88, 0x89, 0xff, rng.randrange(256)]) for _ in range(n)]
            op = rng.choice([2010, 2011, 2012, 2013, 2014, 2015, 2016, 2017])
            if op in (2013, 2014):
                pre = [rng.choice([0, 1, 2, 7, 8, 9, 255, 256, 2 ** 32 - 1])]
            elif op == 2015:
                pre = [rng.randrange(8), rng.choice(TAGS)]
                if bs and rng.random() < 0.7:
                    bs[0] = pre[1]
            elif op == 2016:
                pre = [rng.choice(TAGS)]
                if bs and rng.random() < 0.7:
                    bs[0] = pre[0]
            elif op == 2017:
                pre = [rng.choice([0, 1, 3, 300]), rng.choice(TAGS)]
                if bs and rng.random() < 0.7:
                    bs[0] = pre[1]
            else:
                pre = []
            L.append("%d %s" % (op, " ".join(map(str, pre + bs))))
        return L

    def oracle(self, line, out, build):
        a = list(map(int, line.split()))
        o = list(map(int, out.split()))
        op = a[0]
        writes = (2001, 2002, 2003, 2004, 2005)
        if (op in writes and len(o) == 2 and o[0] in (2, 3)) or (op not in writes and o[:1] in ([2], [3])):
            return ("der_panic", "DER primitive panicked/crashed: %s" % out)
        if op in writes:
            nb = o[0]
            r = o[1 + nb:]
            if op == 2001:
                want, tail = [a[1]], a[2:]
            elif op == 2002:
                if a[2] >= 31:
                    return None
                want, tail = [a[1], a[2]], a[3:]
            elif op == 2003:
                if a[2] >= 31:
                    return None
                want, tail = [a[3]], a[4:]
            elif op == 2004:
                if a[3] >= 31:
                    return None
                want, tail = [a[4]], a[5:]
            else:
                if a[2] >= 31:
                    return None
                if a[4] >= a[3]:
                    return None   # index not a variant: error expected, nothing to round-trip
                want, tail = [a[4]], a[5:]
            if r[:1] != [0]:
                return ("der_roundtrip", "read-back failed: %s" % r)
            if r[1] != len(tail):
                return ("der_roundtrip", "consumed %d bytes of %d written" % (nb + len(tail) - r[1], nb))
            if r[2:] != want:
                return ("der_roundtrip", "read back %s, wrote %s" % (r[2:], want))
        if op == 2012 and len(a) > 1 and a[1] != 0:
            if o[:1] != [0] or o[2] != 1:
                return ("der_bool_nonzero", "non-zero octet %d not read as true" % a[1])
        return None

    def nontrivial(self, line, out):
        a = line.split()
        o = out.split()
        if a[0] in ("2001", "2002", "2003", "2004", "2005"):
            nb = int(o[0])
            r = o[1 + nb:]
            return r[:1] == ["0"] and (r[2:] != ["0"] or r[1] != "0")
        return len(a) > 3


SPEC = C20()
