"""C17 -- protobuf write/read round trip up to ProtobufEq, both writer back ends.

Also carries the shared description of the protobuf zoo (types, value generators, integer-list
layout of values) used by C18.py, and the malformed-input stream for the protobuf reader (C04)."""
from vlib import Spec

# --------------------------------------------------------------------------
# the zoo (mirror of harness/a1h/src/proto.rs and zoo_ty in coq/Extract/OpsProto.v)
# --------------------------------------------------------------------------
KINDS = {"u8": (0, 2**8 - 1), "i8": (-2**7, 2**7 - 1), "u16": (0, 2**16 - 1), "i16": (-2**15, 2**15 - 1),
         "u32": (0, 2**32 - 1), "i32": (-2**31, 2**31 - 1), "u64": (0, 2**64 - 1), "i64": (-2**63, 2**63 - 1)}
# INTEGERs with an extension marker: the Rust type is u64 / i64 (range below); XROOT keeps the root bounds for the generator
I64R, U64R = (-2**63, 2**63 - 1), (0, 2**64 - 1)
XROOT = {"xs5": (-5, 5), "xu255": (0, 255), "xs128": (-128, 127), "xu32": (0, 2**32 - 1), "xs32": (-2**31, 2**31 - 1),
         "xneg": (-2**63, -1), "xumax": (None, None), "xu5max": (5, 2**63 - 1), "xu5big": (5, 10**11), "xsbig": (-10**11, 5)}
KINDS.update({k: (I64R if (lo is not None and lo < 0) else U64R) for k, (lo, hi) in XROOT.items()})



def I(k): return ("int", k)
def R(t): return (False, t)
def O(t): return (True, t)
def SEQ(*fs): return ("seq", list(fs))
def LIST(t): return ("list", t)
def CHOICE(*alts): return ("choice", list(alts))


BOOL, STR, BYTES, BITS, NULL = ("bool",), ("str",), ("bytes",), ("bits",), ("null",)
COLOR = ("enum", 3)
INNER = SEQ(R(I("u16")), O(STR))
CH2 = CHOICE(I("u8"), BYTES)
CH = CHOICE(I("i16"), BOOL, STR, INNER, CH2, COLOR)
TUP = SEQ(R(I("u16")))
TUPL = SEQ(R(LIST(STR)))
BLANK = SEQ(O(I("u8")), O(STR), O(LIST(BOOL)))     # a message that can be blank (zero bytes of content)
CHBLANK = CHOICE(BLANK, I("u8"))
# DEFAULT components: ordinary (always written) components for protobuf; the ASN.1 defaults are kept aside for the generator
DEFINNER = SEQ(R(I("u8")), R(STR), R(BOOL))
XINT_FIELDS = ["xs5", "i8", "xu255", "u8", "xs128", "xu32", "u32", "xs32", "i32", "xneg", "xumax", "xu5max", "xu5big", "xsbig"]
DEFCH = CHOICE(DEFINNER, I("u8"))

ZOO = {
    0: SEQ(R(I("u8")), R(I("i8")), R(I("u16")), R(I("i16")), R(I("u32")), R(I("i32")), R(I("u64")), R(I("i64")), R(I("u64"))),
    1: INNER,
    2: COLOR,
    3: SEQ(R(BOOL), R(STR), R(BYTES), R(BITS), R(COLOR), R(STR)),
    4: SEQ(O(I("u8")), O(STR), O(BOOL), O(BYTES), O(INNER), R(I("i8")), O(COLOR), O(I("i64"))),
    5: SEQ(R(LIST(I("i32"))), R(LIST(STR)), R(LIST(INNER)), O(LIST(I("u8"))), R(BOOL), R(LIST(I("u16")))),
    6: CH2,
    7: CH,
    8: SEQ(R(BOOL), R(CH), R(I("u8")), O(CH2)),
    9: SEQ(R(LIST(CH2)), R(LIST(COLOR)), R(LIST(BOOL)), R(LIST(BYTES))),
    10: TUP,
    11: TUPL,
    12: SEQ(R(TUP), O(TUP), R(TUPL)),
    13: SEQ(R(SEQ(O(SEQ(O(I("u8")))), R(BOOL))), R(STR)),
    14: SEQ(R(I("u8")), R(STR)),            # SET { b [1] UTF8String, a [0] INTEGER }: visit order a, b
    15: SEQ(R(I("u8")), R(NULL), R(I("u8"))),
    16: SEQ(O(NULL), O(I("u8")), R(I("u8"))),
    17: CHOICE(NULL, I("u8")),
    18: SEQ(R(BITS)),
    19: SEQ(R(LIST(LIST(I("u8")))), R(I("u8"))),
    20: CHOICE(LIST(I("u8")), I("u8")),
    21: SEQ(R(LIST(NULL)), R(I("u8"))),
    22: BLANK,
    23: SEQ(R(LIST(BLANK)), R(I("u8"))),
    24: CHBLANK,
    25: SEQ(R(BLANK), O(BLANK), R(CHBLANK), R(BOOL)),
    26: SEQ(R(STR), R(I("u8")), R(I("i8")), R(BOOL), R(STR), R(COLOR), R(I("u16")), R(I("u64")), O(STR)),
    27: SEQ(R(I("u8")), R(BOOL), O(I("u8")), R(STR), R(BOOL)),     # SET, automatic tags: visit order = declaration order
    28: SEQ(R(I("u8")), R(BOOL), R(COLOR), R(I("u8"))),        # zero-valued defaults (no string: DEFAULT "" is rejected by the front end)
    29: DEFINNER,
    30: DEFCH,
    31: SEQ(R(LIST(DEFINNER)), R(DEFCH), O(DEFINNER)),
    32: SEQ(*([R(I(k)) for k in XINT_FIELDS] + [O(I("xs5")), O(I("xu255"))])),
    33: SEQ(R(LIST(I("xs5"))), R(LIST(I("xu255")))),
    34: CHOICE(I("xs5"), I("xu255"), I("u8")),
}
# component index -> ASN.1 DEFAULT value (strings as code tuples, enums as index)
DEFAULTS = {26: {1: 3, 2: -5, 3: True, 4: (120,), 5: 1, 7: 1000000}, 27: {0: 3, 1: True, 3: (120,)},
            28: {0: 0, 1: False, 2: 0}, 29: {0: 7, 1: (100,), 2: True}}
ZOO_NAMES = {0: "Ints", 1: "Inner", 2: "Color", 3: "Prim", 4: "Opt", 5: "Lists", 6: "Ch2", 7: "Ch", 8: "ChSeq",
             9: "Lists2", 10: "Tup", 11: "TupL", 12: "UseTup", 13: "Deep", 14: "SetT", 15: "NullSeq", 16: "OptNull",
             17: "ChNull", 18: "BitsT", 19: "Nested", 20: "ChList", 21: "ListNull", 22: "Blank", 23: "ListBlank", 24: "ChBlank", 25: "SeqBlank", 26: "Defs", 27: "DefSet", 28: "DefZero",
             29: "DefInner", 30: "DefCh", 31: "DefNest", 32: "XInts", 33: "XList", 34: "XCh"}
PEQ_ZOO = {
    0: SEQ(O(I("u64")), O(STR), O(BOOL), R(LIST(I("i32"))), O(BYTES), R(BITS), O(INNER), O(LIST(STR))),
    1: CHOICE(I("u64"), INNER, STR),
}

NONE = ("none",)


def some(v): return ("some", v)


def has(t, pred):
    if pred(t):
        return True
    if t[0] == "seq":
        return any(has(ft, pred) for _, ft in t[1])
    if t[0] == "list":
        return has(t[1], pred)
    if t[0] == "choice":
        return any(has(a, pred) for a in t[1])
    return False


def has_bits(t): return has(t, lambda x: x[0] == "bits")


def read_corpus(prop):
    """corpus/<prop>/*.txt except the proposal file (which holds finding lines, not cases)"""
    import os
    import vlib
    d = os.path.join(vlib.ROOT, "corpus", prop)
    lines = []
    if os.path.isdir(d):
        for f in sorted(os.listdir(d)):
            if f.endswith(".txt") and not f.startswith("FINDINGS"):
                for l in open(os.path.join(d, f)):
                    l = l.split("#")[0].strip()
                    if l:
                        lines.append(l)
    return lines


# ---- values -> integer lists (enc_val / dec_val layout) ----
def enc_val(t, v, out):
    k = t[0]
    if k == "bool":
        out.append(1 if v else 0)
    elif k in ("int", "enum"):
        out.append(v)
    elif k in ("str", "bytes"):
        out.append(len(v))
        out.extend(v)
    elif k == "bits":
        out.append(v[1])
        out.append(len(v[0]))
        out.extend(v[0])
    elif k == "null":
        pass
    elif k == "seq":
        for (opt, ft), fv in zip(t[1], v):
            if opt:
                if fv == NONE:
                    out.append(0)
                else:
                    out.append(1)
                    enc_val(ft, fv[1], out)
            else:
                enc_val(ft, fv, out)
    elif k == "list":
        out.append(len(v))
        for e in v:
            enc_val(t[1], e, out)
    elif k == "choice":
        out.append(v[0])
        enc_val(t[1][v[0]], v[1], out)
    return out


def dec_val(t, a, pos):
    """-> (value, newpos); bit strings come back as (bytes, bit_len) exactly as printed"""
    k = t[0]
    if k == "bool":
        return a[pos] != 0, pos + 1
    if k in ("int", "enum"):
        return a[pos], pos + 1
    if k in ("str", "bytes"):
        n = a[pos]
        return tuple(a[pos + 1:pos + 1 + n]), pos + 1 + n
    if k == "bits":
        bl, n = a[pos], a[pos + 1]
        return (tuple(a[pos + 2:pos + 2 + n]), bl), pos + 2 + n
    if k == "null":
        return "NULL", pos
    if k == "seq":
        vs = []
        for opt, ft in t[1]:
            if opt:
                if a[pos] == 0:
                    vs.append(NONE)
                    pos += 1
                else:
                    fv, pos = dec_val(ft, a, pos + 1)
                    vs.append(some(fv))
            else:
                fv, pos = dec_val(ft, a, pos)
                vs.append(fv)
        return vs, pos
    if k == "list":
        n = a[pos]
        pos += 1
        vs = []
        for _ in range(n):
            e, pos = dec_val(t[1], a, pos)
            vs.append(e)
        return vs, pos
    if k == "choice":
        i = a[pos]
        fv, pos = dec_val(t[1][i], a, pos + 1)
        return (i, fv), pos
    raise ValueError(k)


def bitvec_from_bytes(bs, bit_len):
    """BitVec::from_bytes: what value the harness actually builds from (bytes, bit_len)"""
    bs = list(bs)
    if len(bs) * 8 < bit_len:
        bs += [0] * ((bit_len + 7) // 8 - len(bs))
    elif len(bs) * 8 > bit_len:
        mask = 0xFF >> (bit_len % 8)
        bs[bit_len // 8] &= (~mask) & 0xFF
    return (tuple(bs), bit_len)


def normalise(t, v):
    """the value as constructed by the harness (only bit strings are touched)"""
    k = t[0]
    if k == "bits":
        return bitvec_from_bytes(v[0], v[1])
    if k == "seq":
        out = []
        for (opt, ft), fv in zip(t[1], v):
            if opt:
                out.append(NONE if fv == NONE else some(normalise(ft, fv[1])))
            else:
                out.append(normalise(ft, fv))
        return out
    if k == "list":
        return [normalise(t[1], e) for e in v]
    if k == "choice":
        return (v[0], normalise(t[1][v[0]], v[1]))
    if k in ("str", "bytes"):
        return tuple(v)
    return v


# ---- ProtobufEq as the property text states it ----
def is_default(t, v):
    k = t[0]
    if k == "bool":
        return v is False
    if k in ("int", "enum"):
        return v == 0
    if k in ("str", "bytes"):
        return len(v) == 0
    if k == "bits":
        return len(v[0]) == 0 and v[1] == 0
    if k == "null":
        return True
    if k == "seq":
        return all((fv == NONE) if opt else is_default(ft, fv) for (opt, ft), fv in zip(t[1], v))
    if k == "list":
        return len(v) == 0
    if k == "choice":
        return v[0] == 0 and is_default(t[1][0], v[1])
    return False


def peq(t, a, b):
    k = t[0]
    if k == "seq":
        for (opt, ft), x, y in zip(t[1], a, b):
            if opt:
                if x == NONE and y == NONE:
                    continue
                if x == NONE:
                    if not is_default(ft, y[1]):
                        return False
                elif y == NONE:
                    if not is_default(ft, x[1]):
                        return False
                elif not peq(ft, x[1], y[1]):
                    return False
            elif not peq(ft, x, y):
                return False
        return True
    if k == "list":
        return len(a) == len(b) and all(peq(t[1], x, y) for x, y in zip(a, b))
    if k == "choice":
        return a[0] == b[0] and peq(t[1][a[0]], a[1], b[1])
    if k in ("str", "bytes"):
        return tuple(a) == tuple(b)
    if k == "bits":
        return tuple(a[0]) == tuple(b[0]) and a[1] == b[1]
    return a == b


# ---- value generators ----
def int_boundaries(k):
    lo, hi = KINDS[k]
    s = {lo, lo + 1, hi - 1, hi, 0, 1}
    for e in range(0, 65):
        for d in (-1, 0, 1):
            for sg in (1, -1):
                v = sg * 2 ** e + d
                if lo <= v <= hi:
                    s.add(v)
    return sorted(s)


BND = {k: int_boundaries(k) for k in KINDS}
STRINGS = [b"", b"a", b"hi", "é".encode(), "€ß".encode(), "\U0001F600".encode(), b"\x00", b"\x7f",
           b"x" * 127, b"y" * 128, ("é" * 150).encode()]


def gen_val(t, rng, style):
    """style: 'zero' (default-ish everywhere, optionals drawn), 'rand', 'big'"""
    k = t[0]
    if k == "bool":
        return False if style == "zero" else rng.random() < 0.5
    if k == "int":
        if style == "zero":
            return 0
        if rng.random() < 0.6:
            return rng.choice(BND[t[1]])
        lo, hi = KINDS[t[1]]
        return rng.randint(lo, hi)
    if k == "enum":
        return 0 if style == "zero" else rng.randrange(t[1])
    if k == "str":
        if style == "zero":
            return ()
        if style == "big" and rng.random() < 0.5:
            return tuple(rng.choice(STRINGS[-3:]))
        if rng.random() < 0.7:
            return tuple(rng.choice(STRINGS[:8]))
        return tuple("".join(chr(rng.choice([rng.randrange(32, 127), rng.randrange(0xa0, 0x800), rng.randrange(0x800, 0xd800),
                                             rng.randrange(0x10000, 0x10ffff)])) for _ in range(rng.randrange(0, 6))).encode())
    if k == "bytes":
        if style == "zero":
            return ()
        n = rng.choice([0, 1, 2, 5, 127, 128, 300]) if style == "big" else rng.choice([0, 1, 1, 2, 3, 8, 9])
        return tuple(rng.choice([0, 255, 128, 127, rng.randrange(256)]) for _ in range(n))
    if k == "bits":
        if style == "zero":
            return ((), 0)
        bl = rng.choice([0, 1, 7, 8, 9, 15, 16, 17, 63, 64, 65, rng.randrange(0, 200)])
        nb = (bl + 7) // 8
        r = rng.random()
        if r < 0.1:
            nb = max(0, nb - 1)       # from_bytes pads
        return (tuple(rng.randrange(256) for _ in range(nb)), bl)
    if k == "null":
        return "NULL"
    if k == "seq":
        out = []
        for opt, ft in t[1]:
            if opt:
                if rng.random() < (0.5 if style != "big" else 0.2):
                    out.append(NONE)
                else:
                    out.append(some(gen_val(ft, rng, style)))
            else:
                out.append(gen_val(ft, rng, style))
        return out
    if k == "list":
        if style == "zero":
            n = rng.choice([0, 0, 1])
        elif style == "big":
            n = rng.choice([0, 1, 2, 20, 130])
        else:
            n = rng.choice([0, 1, 1, 2, 3, 4])
        sub = "rand" if style == "big" and n > 5 else style
        return [gen_val(t[1], rng, sub) for _ in range(n)]
    if k == "choice":
        i = rng.randrange(len(t[1]))
        return (i, gen_val(t[1][i], rng, style))
    raise ValueError(k)


def all_alternatives(t, rng):
    """one value per CHOICE alternative reachable at any depth (first CHOICE found on each path)"""
    k = t[0]
    if k == "choice":
        return [(i, gen_val(a, rng, "rand")) for i, a in enumerate(t[1])]
    if k == "seq":
        res = []
        for idx, (opt, ft) in enumerate(t[1]):
            for alt in all_alternatives(ft, rng):
                v = gen_val(t, rng, "rand")
                v[idx] = some(alt) if opt else alt
                res.append(v)
        return res
    if k == "list":
        return [[alt] for alt in all_alternatives(t[1], rng)]
    return []


# ---- a plain proto3 encoder for the zoo (only a source of well-formed seeds for mutation) ----
def varint(v):
    v &= 2**64 - 1
    out = []
    while v > 0x7f:
        out.append((v & 0x7f) | 0x80)
        v >>= 7
    out.append(v)
    return out


def zigzag(v): return (v << 1) ^ (v >> 63)


def pb_field(num, t, v, out):
    k = t[0]
    if k == "bool":
        out += varint(num << 3) + [1 if v else 0]
    elif k == "int":
        out += varint(num << 3) + varint(zigzag(v) if KINDS[t[1]][0] < 0 else v)
    elif k == "enum":
        out += varint(num << 3) + varint(v)
    elif k in ("str", "bytes"):
        out += varint(num << 3 | 2) + varint(len(v)) + list(v)
    elif k == "bits":
        p = list(v[0][:(v[1] + 7) // 8]) + list(v[1].to_bytes(8, "big"))
        out += varint(num << 3 | 2) + varint(len(p)) + p
    elif k == "null":
        out += varint(num << 3 | 2) + [0]
    elif k in ("seq", "choice"):
        p = pb_msg(t, v)
        out += varint(num << 3 | 2) + varint(len(p)) + p
    elif k == "list":
        for e in v:
            pb_field(num, t[1], e, out)


def pb_msg(t, v):
    out = []
    if t[0] == "seq":
        for i, ((opt, ft), fv) in enumerate(zip(t[1], v)):
            if opt:
                if fv != NONE:
                    pb_field(i + 1, ft, fv[1], out)
            else:
                pb_field(i + 1, ft, fv, out)
    elif t[0] == "choice":
        pb_field(v[0] + 1, t[1][v[0]], v[1], out)
    elif t[0] == "enum":
        out += varint(v)
    return out


def mutate(bs, rng):
    bs = list(bs)
    for _ in range(rng.choice([1, 1, 2, 3])):
        k = rng.randrange(6)
        if k == 0 and bs:
            bs = bs[:rng.randrange(len(bs))]
        elif k == 1 and bs:
            i = rng.randrange(len(bs))
            bs[i] ^= 1 << rng.randrange(8)
        elif k == 2:
            bs.insert(rng.randrange(len(bs) + 1), rng.choice([0, 1, 2, 0x7f, 0x80, 0xff, rng.randrange(256)]))
        elif k == 3 and bs:
            del bs[rng.randrange(len(bs))]
        elif k == 4 and bs:
            i = rng.randrange(len(bs))
            bs[i:i + 1] = rng.choice([[0xff] * 9 + [0x01], [0xf5] + [0xff] * 8 + [0x01], [0x80] * 9 + [0x01],
                                      [0xff, 0xff, 0xff, 0xff, 0x0f], [0x7f], [0x80, 0x01]])
        elif k == 5 and bs:
            i = rng.randrange(len(bs))
            bs[i] = rng.choice([0, 1, 2, 5, 8, 9, 10, 13, 0x12, 0x1a, 0x7f, 0x80, 0xff])
    return bs


def known_shape(t, v):
    """shape of a value that falls into one of the reported defect families (None otherwise)"""
    k = t[0]
    if k == "choice":
        alt = t[1][v[0]]
        if alt[0] == "null":
            return "choice_null_unreadable"
        if alt[0] == "list":
            return "choice_list_alternative"
        return known_shape(alt, v[1])
    if k == "list":
        if t[1][0] == "list" and len(v) > 0:
            return "nested_list_read_unbounded"
        for e in v:
            r = known_shape(t[1], e)
            if r:
                return r
        return None
    if k == "seq":
        for idx, ((opt, ft), fv) in enumerate(zip(t[1], v)):
            if opt and fv == NONE:
                continue
            inner = fv[1] if opt else fv
            r = known_shape(ft, inner)
            if r:
                return r
        return None
    return None


def bits_excess(t, v):
    k = t[0]
    if k == "bits":
        return len(v[0]) != (v[1] + 7) // 8
    if k == "seq":
        return any(bits_excess(ft, fv[1] if opt else fv) for (opt, ft), fv in zip(t[1], v) if not (opt and fv == NONE))
    if k == "list":
        return any(bits_excess(t[1], e) for e in v)
    if k == "choice":
        return bits_excess(t[1][v[0]], v[1])
    return False


def trim_bits(t, v):
    """the value with every bit string cut to the bytes its bit length needs"""
    k = t[0]
    if k == "bits":
        return (tuple(v[0][:(v[1] + 7) // 8]), v[1])
    if k == "seq":
        return [fv if (opt and fv == NONE) else (some(trim_bits(ft, fv[1])) if opt else trim_bits(ft, fv))
                for (opt, ft), fv in zip(t[1], v)]
    if k == "list":
        return [trim_bits(t[1], e) for e in v]
    if k == "choice":
        return (v[0], trim_bits(t[1][v[0]], v[1]))
    return v


def flatten_nested(t, v):
    """what survives of a list of lists when nothing is read for its empty inner lists (only the shape
    [[], [], ..] -> [] is meant; a non-empty inner list never comes back at all)"""
    k = t[0]
    if k == "list" and t[1][0] == "list":
        return [e for e in v if len(e) > 0]
    if k == "seq":
        return [fv if (opt and fv == NONE) else (some(flatten_nested(ft, fv[1])) if opt else flatten_nested(ft, fv))
                for (opt, ft), fv in zip(t[1], v)]
    if k == "list":
        return [flatten_nested(t[1], e) for e in v]
    if k == "choice":
        return (v[0], flatten_nested(t[1][v[0]], v[1]))
    return v


def null_lists(t, v):
    """number of NULL elements held by SEQUENCE OF NULL lists inside the value"""
    k = t[0]
    if k == "list":
        return len(v) if t[1][0] == "null" else sum(null_lists(t[1], e) for e in v)
    if k == "seq":
        return sum(null_lists(ft, fv[1] if opt else fv) for (opt, ft), fv in zip(t[1], v) if not (opt and fv == NONE))
    if k == "choice":
        return null_lists(t[1][v[0]], v[1])
    return 0


def drop_null_lists(t, v):
    """the value with every SEQUENCE OF NULL emptied (nothing is written for a NULL element)"""
    k = t[0]
    if k == "list":
        return [] if t[1][0] == "null" else [drop_null_lists(t[1], e) for e in v]
    if k == "seq":
        return [fv if (opt and fv == NONE) else (some(drop_null_lists(ft, fv[1])) if opt else drop_null_lists(ft, fv))
                for (opt, ft), fv in zip(t[1], v)]
    if k == "choice":
        return (v[0], drop_null_lists(t[1][v[0]], v[1]))
    return v


def parse_4050(o):
    """-> dict(w=('ok', bytes)|('err',k)|('panic',c), s=..., r=('ok', ints)|...)"""
    res = {}
    if o[0] != 0:
        res["w"] = ("err" if o[0] == 1 else "panic", o[1])
        return res
    n = o[1]
    res["w"] = ("ok", o[2:2 + n])
    p = 2 + n
    if o[p] == 0:
        m = o[p + 1]
        res["s"] = ("ok", o[p + 2:p + 2 + m])
        p = p + 2 + m
    else:
        res["s"] = ("err" if o[p] == 1 else "panic", o[p + 1])
        p += 2
    if o[p] == 0:
        res["r"] = ("ok", o[p + 1:])
    else:
        res["r"] = ("err" if o[p] == 1 else "panic", o[p + 1])
    return res


def blank_cases():
    """deterministic family: a nested message all of whose components are OPTIONAL, blank / holding only an empty
    list / partly filled / filled, as list element (mixed within one list), CHOICE alternative (top-level and nested),
    required and OPTIONAL component"""
    blank = [NONE, NONE, NONE]
    emptyl = [NONE, NONE, some([])]                      # also zero bytes of content
    zero_a = [some(0), NONE, NONE]                       # a default-valued scalar that is present
    empty_s = [NONE, some(()), NONE]
    filled = [some(5), some((104, 105)), some([True, False])]
    part = [NONE, some((120,)), NONE]
    shapes = [blank, emptyl, zero_a, empty_s, filled, part]
    cases = [(22, s) for s in shapes]
    lists = [[], [blank], [blank, blank], [filled, blank, filled], [blank, filled], [filled, blank], [emptyl, blank, part],
             [blank, zero_a, blank, empty_s, blank], [blank] * 5, [filled, filled]]
    for l in lists:
        for x in (0, 7):
            cases.append((23, [l, x]))
    alts = [(0, s) for s in shapes] + [(1, 0), (1, 9)]
    cases += [(24, a) for a in alts]
    for r in (blank, filled, emptyl):
        for o in (NONE, some(blank), some(filled), some(emptyl), some(zero_a)):
            for c in ((0, blank), (0, filled), (0, part), (1, 0), (1, 3)):
                for x in (False, True):
                    cases.append((25, [r, o, c, x]))
    return cases


def default_cases():
    """deterministic family: DEFAULT components equal to their default, one off it, at the proto3 zero value, mixed;
    flat (SEQUENCE, SET, zero-valued defaults as control) and nested (list element, CHOICE alternative, OPTIONAL)"""
    def zero(ft):
        return {"int": 0, "bool": False, "str": (), "enum": 0}[ft[0]]

    def off(ft, d):
        k = ft[0]
        if k == "int":
            return d + 1 if d + 1 <= KINDS[ft[1]][1] else d - 1
        if k == "bool":
            return not d
        if k == "str":
            return tuple(d) + (121,)
        return (d + 1) % ft[1]

    def variants(tid, base):
        t, defs = ZOO[tid], DEFAULTS[tid]
        idx = sorted(defs)
        out = []
        alld = list(base)
        for i in idx:
            alld[i] = defs[i]
        out.append(alld)                                           # every component equal to its default
        for i in idx:                                              # one component off / at zero, the others default
            for val in (off(t[1][i][1], defs[i]), zero(t[1][i][1])):
                v = list(alld)
                v[i] = val
                out.append(v)
        out.append([off(t[1][i][1], defs[i]) if i in defs else x for i, x in enumerate(alld)])      # every one off
        out.append([zero(t[1][i][1]) if i in defs else x for i, x in enumerate(alld)])              # every one zero
        for par in (0, 1):                                         # mixed: default / zero and zero / one off alternating
            out.append([(defs[i] if idx.index(i) % 2 == par else zero(t[1][i][1])) if i in defs else x for i, x in enumerate(alld)])
            out.append([(zero(t[1][i][1]) if idx.index(i) % 2 == par else off(t[1][i][1], defs[i])) if i in defs else x
                        for i, x in enumerate(alld)])
        return out

    cases = []
    for base in ([(110,), None, None, None, None, None, 8080, None, NONE], [(), None, None, None, None, None, 0, None, some((104,))]):
        cases += [(26, v) for v in variants(26, base)]
    for base in ([None, None, NONE, None, True], [None, None, some(0), None, False], [None, None, some(3), None, False]):
        cases += [(27, v) for v in variants(27, base)]
    for base in ([None, None, None, 0], [None, None, None, 9]):
        cases += [(28, v) for v in variants(28, base)]
    inner = variants(29, [None, None, None])
    cases += [(29, v) for v in inner]
    cases += [(30, (0, v)) for v in inner] + [(30, (1, 0)), (30, (1, 3))]
    d, z, o1 = inner[0], [0, (), False], inner[-4]
    for items in ([], [d], [z], [d, z, o1], [z, z], [d, d], inner[:6]):
        for c in ((0, d), (0, z), (0, o1), (1, 0), (1, 7)):
            for o in (NONE, some(d), some(z)):
                cases.append((31, [items, c, o]))
    return cases


def xint_values(kind):
    """0, +-1, the root bounds, just outside the root, far outside (+-2^30, +-2^31, +-2^32, +-2^40, 64-bit extremes),
    as far as the Rust type admits them"""
    lo, hi = KINDS[kind]
    cand = {0, 1, -1, 2**30 - 1, 2**30, -2**30, -2**30 - 1, 2**31 - 1, 2**31, -2**31, -2**31 - 1, 2**32 - 1, 2**32, -2**32,
            2**40, -2**40, 2**63 - 1, -2**63, 2**63, 2**64 - 1}
    rl, rh = XROOT.get(kind, (lo, hi))
    for b in (rl, rh):
        if b is not None:
            cand |= {b - 1, b, b + 1}
    return sorted(v for v in cand if lo <= v <= hi)


def xint_cases():
    """deterministic family: every flavour of extensible INTEGER next to its non-extensible twin, required, OPTIONAL,
    as list element and as CHOICE alternative"""
    cases = []
    t = ZOO[32]
    kinds = [ft[1] for _, ft in t[1]]
    vals = [xint_values(k) for k in kinds]
    for j in range(max(len(v) for v in vals)):
        row = []
        for (opt, _), vs in zip(t[1], vals):
            x = vs[j % len(vs)]
            row.append(some(x) if opt else x)
        cases.append((32, row))
    zero = [0] * len(XINT_FIELDS)
    cases.append((32, zero + [NONE, NONE]))
    for i, k in enumerate(kinds[:len(XINT_FIELDS)]):            # one component at a time away from zero
        if k in XROOT:
            for x in xint_values(k):
                row = list(zero)
                row[i] = x
                cases.append((32, row + [NONE, NONE]))
    xs, xu = xint_values("xs5"), xint_values("xu255")
    cases += [(33, [[], []]), (33, [xs, xu]), (33, [xs[::-1], xu[::-1]]), (33, [[0, 2**31, -1], [2**32, 1]])]
    cases += [(33, [[x], [y]]) for x, y in zip(xs, (xu * 2)[:len(xs)])]
    cases += [(34, (0, x)) for x in xs] + [(34, (1, x)) for x in xu] + [(34, (2, 0)), (34, (2, 255))]
    return cases


def zoo_cases(rng, tier, ids=None, quick_n=110):
    """-> list of (tid, value) with coverage of boundaries, defaults, optionals, alternatives"""
    n_rand = quick_n if tier == "quick" else 2500
    cases = []
    for tid, t in ZOO.items():
        if ids is not None and tid not in ids:
            continue
        for style, n in (("zero", max(8, n_rand // 8)), ("rand", n_rand), ("big", max(6, n_rand // 10))):
            if tid == 19:
                n = max(4, n // 6)     # every non-empty outer list costs a watchdog trip in the harness
            for _ in range(n):
                cases.append((tid, gen_val(t, rng, style)))
        for v in all_alternatives(t, rng):
            cases.append((tid, v))
    cases += [(tid, v) for tid, v in blank_cases() if ids is None or tid in ids]
    cases += [(tid, v) for tid, v in default_cases() if ids is None or tid in ids]
    cases += [(tid, v) for tid, v in xint_cases() if ids is None or tid in ids]
    # every boundary of every integer kind (type 0 holds all of them)
    t0 = ZOO[0]
    kinds = [ft[1] for _, ft in t0[1]]
    longest = max(len(BND[k]) for k in kinds)
    for j in range(longest):
        cases.append((0, [BND[k][j % len(BND[k])] for k in kinds]))
    return cases


class C17(Spec):
    prop = "C17"
    coq_targets = ["Props/C17.vo"]
    prop_module = "Props.C17"
    theorems = []   # filled below
    builds = [("protobuf", "dev"), ("protobuf", "release")]
    timeout_per_chunk = 300
    level_text = ("Round-trip theorems about a hand-written Gallina model of protocol/protobuf/mod.rs, rw/proto_write.rs, "
                  "rw/proto_read.rs and peq.rs (varint and zig-zag for all u64/i32/i64; write/read round trip up to ProtobufEq for "
                  "the proven class of types; back-end agreement), refutation witnesses for the classes where the faithful model "
                  "breaks the property; the model is tied to the crate by differential execution over a zoo of asn_to_rust! types "
                  "(dev and release), with a Python oracle for ProtobufEq and byte equality of the two writer back ends.")
    rule = ("primitive ops: varint/zig-zag/tag/uint32/bool/sfixed32 boundary families (+-2^k+-1, type extremes) and random values "
            "with tails; raw reads of random/biased bytes incl. UTF-8 edge sequences; zoo of 35 generated types x styles "
            "{default-ish, random with boundary integers, big (long strings/lists)} x cap modes {exact, +3, -1} for the slice back end, "
            "every CHOICE alternative, every boundary of every integer kind, a fixed family of blank / partly filled nested messages (list element, CHOICE alternative, required, OPTIONAL; mixed within one list), a fixed family of DEFAULT components (equal to the default, one off, at the proto3 zero value, mixed; SEQUENCE, SET, nested), a fixed family of extensible INTEGERs of every flavour next to their non-extensible twins (0, +-1, root bounds, just outside, +-2^30, +-2^31, +-2^32, +-2^40, 64-bit extremes; required, OPTIONAL, list element, CHOICE alternative); ProtobufEq on hand-written derive types; malformed "
            "streams for every zoo type (random bytes, truncations, bit flips, length-field overwrites of well-formed encodings). "
            "non-trivial = the op wrote at least one byte and the read-back succeeded, or a raw read got past its first byte; "
            "distinct = distinct case line")
    assumptions_text = ["io::Read for &[u8] / io::Write for Vec<u8> and &mut [u8] behave as read_exact/write_all on byte lists",
                        "64-bit usize", "tag counters stay below 2^32"]
    mem_gb = 4

    def corpus(self):
        return read_corpus(self.prop)

    def gen(self, rng, tier):
        L = []
        n_rand = 250 if tier == "quick" else 6000

        def tail():
            return [rng.randrange(256) for _ in range(rng.choice([0, 0, 1, 2, 5]))]

        def line(op, *xs):
            return "%d %s" % (op, " ".join(map(str, xs)))
        # ---- primitives ----
        vs = set(BND["u64"])
        for k in range(0, 10):
            for d in range(-2, 3):
                v = 2 ** (7 * k) + d
                if 0 <= v < 2 ** 64:
                    vs.add(v)
        for _ in range(n_rand):
            vs.add(rng.randrange(2 ** rng.randrange(1, 65)))
        for v in sorted(vs):
            L.append(line(4001, v, *tail()))
        for v in BND["i32"] + [rng.randint(-2**31, 2**31 - 1) for _ in range(n_rand)]:
            L.append(line(4002, v, *tail()))
            L.append(line(4007, v, *tail()))
        for v in BND["i64"] + [rng.randint(-2**63, 2**63 - 1) for _ in range(n_rand)]:
            L.append(line(4003, v, *tail()))
        for f in list(range(0, 40)) + [127, 128, 2047, 2048, 2**28, 2**29 - 1, 2**29, 2**31, 2**32 - 1]:
            for w in (0, 1, 2, 5):
                L.append(line(4004, f, w, *tail()))
        for v in BND["u32"] + [rng.randrange(2**32) for _ in range(n_rand // 2)]:
            L.append(line(4005, v, *tail()))
        for b in (0, 1):
            L.append(line(4006, b, *tail()))
        for n in (0, 1, 2, 127, 128, 129, 300):
            L.append(line(4008, *[rng.randrange(256) for _ in range(n)]))
        for _ in range(n_rand // 2):
            bl = rng.choice([0, 1, 7, 8, 9, 16, 17, 64, rng.randrange(0, 120)])
            nb = rng.choice([(bl + 7) // 8, (bl + 7) // 8, max(0, (bl + 7) // 8 - 1), (bl + 7) // 8 + 1])
            L.append(line(4009, bl, *[rng.randrange(256) for _ in range(nb)]))
        # ---- raw reads ----
        utf8 = [[0xc0, 0x80], [0xc1, 0xbf], [0xc2, 0x80], [0xdf, 0xbf], [0xe0, 0x80, 0x80], [0xe0, 0xa0, 0x80],
                [0xed, 0x9f, 0xbf], [0xed, 0xa0, 0x80], [0xee, 0x80, 0x80], [0xef, 0xbf, 0xbf], [0xf0, 0x8f, 0xbf, 0xbf],
                [0xf0, 0x90, 0x80, 0x80], [0xf4, 0x8f, 0xbf, 0xbf], [0xf4, 0x90, 0x80, 0x80], [0xf5, 0x80, 0x80, 0x80],
                [0x80], [0xbf], [0xc2], [0xe1, 0x80], [0xf1, 0x80, 0x80], [0x41, 0xc3, 0xa9, 0x42], [0xff], [0xfe]]
        for u in utf8:
            L.append(line(4014, *u))
            L.append(line(4014, 0x61, *u))
            L.append(line(4014, *(u + [0x62])))
        for _ in range(n_rand * 3):
            n = rng.randrange(0, 14)
            bs = [rng.choice([0, 1, 2, 0x7f, 0x80, 0x81, 0xfe, 0xff, rng.randrange(256)]) for _ in range(n)]
            L.append(line(rng.choice([4010, 4011, 4012, 4013, 4014, 4015, 4016, 4017, 4018]), *bs))
        for n in range(0, 12):
            L.append(line(4010, *([0xff] * n)))
            L.append(line(4010, *([0x80] * n + [1])))
            L.append(line(4015, *([3] * n)))
        # ---- Writer/Reader over the zoo ----
        seeds = []
        for tid, v in zoo_cases(rng, tier):
            t = ZOO[tid]
            cap = rng.choice([0, 0, 1, 2])
            L.append(line(4050, tid, cap, *enc_val(t, v, [])))
            if rng.random() < 0.5:
                seeds.append((tid, pb_msg(t, normalise(t, v))))
        # ---- ProtobufEq ----
        for pid, t in PEQ_ZOO.items():
            for _ in range(n_rand):
                a = gen_val(t, rng, rng.choice(["zero", "rand"]))
                r = rng.random()
                if r < 0.35:
                    b = a
                elif r < 0.7:
                    b = self.perturb(t, a, rng)
                else:
                    b = gen_val(t, rng, rng.choice(["zero", "rand"]))
                L.append(line(4070, pid, *(enc_val(t, a, []) + enc_val(t, b, []))))
        # ---- malformed streams (C04 for the protobuf reader) ----
        n_mal = 6 if tier == "quick" else 60
        for tid in ZOO:
            L.append(line(4060, tid, 0))
            for _ in range(n_mal * 4):
                n = rng.randrange(0, 24)
                bs = [rng.choice([0, 1, 2, 8, 9, 10, 0x12, 0x1a, 0x7f, 0x80, 0xff, rng.randrange(256)]) for _ in range(n)]
                L.append(line(4060, tid, 0, *bs))
        for tid, bs in seeds:
            for _ in range(n_mal // 2):
                L.append(line(4060, tid, 0, *mutate(bs, rng)))
            L.append(line(4060, tid, 0, *bs))
        # targeted: length fields close to 2^64 (usize overflow in index_enclosed) and beyond the end
        for tid in (1, 4, 8, 12, 13):
            for k in (1, 2, 11, 12, 13, 20):
                ln = varint(2**64 - k)
                L.append(line(4060, tid, 2, 0x0a, *ln))
                L.append(line(4060, tid, 2, 0x2a, *(ln + [0x08, 0x01])))
                L.append(line(4060, tid, 2, 0x08, 0x01, 0x12, *ln))
            for ln in (1, 5, 127, 128, 2**31, 2**63):
                L.append(line(4060, tid, 3, 0x0a, *varint(ln)))
                L.append(line(4060, tid, 3, 0x12, *(varint(ln) + [0x00])))
                L.append(line(4060, tid, 3, 0x09, 1, 2, 3))
                L.append(line(4060, tid, 3, 0x0d, 1))
        for tid in (3, 18):
            t = ZOO[tid]
            for _ in range(20):
                v = normalise(t, gen_val(t, rng, "rand"))
                bs = pb_msg(t, v)
                L.append(line(4060, tid, 1))                       # bit string absent
                num = 4 if tid == 3 else 1
                for short in range(0, 8):
                    L.append(line(4060, tid, 1, num << 3 | 2, short, *[7] * short))
                L.append(line(4060, tid, 0, *bs))
        return L

    @staticmethod
    def perturb(t, v, rng):
        """a value that differs from v only in optional-vs-default-ish presence (should stay ProtobufEq) or slightly"""
        k = t[0]
        if k == "seq":
            out = []
            for (opt, ft), fv in zip(t[1], v):
                if opt and rng.random() < 0.6:
                    if fv == NONE:
                        out.append(some(gen_val(ft, rng, "zero")) if rng.random() < 0.8 else some(gen_val(ft, rng, "rand")))
                    elif is_default(ft, fv[1]) and rng.random() < 0.8:
                        out.append(NONE)
                    else:
                        out.append(some(C17.perturb(ft, fv[1], rng)))
                elif opt:
                    out.append(fv)
                else:
                    out.append(C17.perturb(ft, fv, rng) if rng.random() < 0.3 else fv)
            return out
        if k == "choice":
            return (v[0], C17.perturb(t[1][v[0]], v[1], rng))
        if k == "list" and v and rng.random() < 0.3:
            return v[:-1]
        if k == "int" and rng.random() < 0.2:
            return 0 if v else 1
        return v

    # ---------------- oracle ----------------
    def oracle(self, line, out, build):
        a = list(map(int, line.split()))
        o = list(map(int, out.split()))
        op = a[0]
        dev = build[1] == "dev"
        if len(o) == 2 and o[0] == 3 and o[1] in (31, 32):
            return ("proto_crash_or_hang", "harness child died or hung: %s" % out)
        if op in (4001, 4002, 4003, 4005, 4006, 4007):
            if o[0] in (2,) and len(o) == 2:
                return ("proto_primitive_panic", out)
            nb = o[0]
            r = o[1 + nb:]
            want = a[1] if op != 4006 else (1 if a[1] else 0)
            tl = a[2:]
            if r[:1] != [0]:
                return ("primitive_roundtrip", "read-back failed: %s" % r)
            if r[1] != len(tl) or r[2] != want:
                return ("primitive_roundtrip", "wrote %s read %s (rest %d, tail %d)" % (want, r[2:], r[1], len(tl)))
            return None
        if op == 4004:
            nb = o[0]
            r = o[1 + nb:]
            if a[1] >= 2 ** 29:
                return None          # not a valid protobuf field number; only model/impl agreement
            if r[:1] != [0] or r[1] != len(a[3:]) or r[2:] != [a[1], a[2]]:
                return ("primitive_roundtrip", "tag (%d,%d) read back as %s" % (a[1], a[2], r))
            return None
        if op == 4009:
            if o[:1] == [2]:
                return ("proto_primitive_panic", out)
            want = bitvec_from_bytes(a[2:], a[1])
            n = o[1]
            back = o[2 + n:]
            if back[:1] != [0]:
                return ("primitive_roundtrip", out)
            got = (tuple(back[3:3 + back[2]]), back[1])
            want_cut = (want[0][:(want[1] + 7) // 8], want[1])
            if got != want_cut:
                return ("primitive_roundtrip", "bit vec %s read back as %s" % (want, got))
            return None
        if 4010 <= op <= 4018:
            if o[:1] == [2]:
                if op == 4015:
                    return ("read_bit_vec_short", "read_bit_vec on %d bytes panicked (class %d)" % (len(a) - 1, o[1]))
                return ("proto_primitive_panic", out)
            if op == 4014:
                try:
                    bytes(a[1:]).decode("utf-8")
                    valid = True
                except UnicodeDecodeError:
                    valid = False
                if valid != (o[0] == 0):
                    return ("utf8_validation", "bytes %s: python says valid=%s, reader says %s" % (a[1:], valid, out))
            return None
        if op == 4050:
            tid, cap = a[1], a[2]
            t = ZOO[tid]
            v0, _ = dec_val(t, a, 3)
            v = normalise(t, v0)
            p = parse_4050(o)
            shape = known_shape(t, v)
            if p["w"][0] != "ok":
                return ("write_failed", "growable writer failed: %s" % out[:80])
            res = []     # independent deviations are reported side by side
            wb = p["w"][1]
            s = p["s"]
            if cap in (0, 1) or len(wb) == 0:
                if s[0] != "ok" or s[1] != wb:
                    res.append(("backends_differ", "slice back end (cap mode %d): %s vs %d bytes from the Vec back end" % (cap, s[:1], len(wb))))
            else:
                if s[0] != "err":
                    res.append(("slice_overflow_not_reported", "capacity %d < %d bytes but the slice writer returned %s" % (len(wb) - 1, len(wb), s[0])))
            r = p["r"]
            if r[0] == "panic":
                if r[1] == 7:
                    res.append((shape if shape == "nested_list_read_unbounded" else "read_unbounded",
                                "reading back the writer's own bytes never terminates (unbounded allocation)"))
                else:
                    res.append(("roundtrip_read_panic", "reader panicked (class %d) on the writer's own bytes" % r[1]))
            elif r[0] == "err":
                res.append((shape if (shape in ("choice_null_unreadable", "choice_list_alternative") and r[1] == 1) else "roundtrip_read_err",
                            "reader returned Err(kind %d) on the writer's own bytes" % r[1]))
            else:
                back, pos = dec_val(t, r[1], 0)
                if pos != len(r[1]):
                    res.append(("harness_format", "trailing ints in read-back value"))
                elif not peq(t, v, back):
                    nested = has(t, lambda x: x[0] == "list" and x[1][0] == "list")
                    if shape == "choice_list_alternative":
                        cls = shape
                    elif nested and peq(t, flatten_nested(t, v), back):
                        cls = "nested_list_flattened"
                    elif bits_excess(t, v) and peq(t, trim_bits(t, v), back):
                        cls = "bitvec_excess_bytes"
                    elif null_lists(t, v) > 0 and peq(t, drop_null_lists(t, v), back):
                        cls = "list_of_null_elements_lost"
                    else:
                        cls = "roundtrip_not_peq"
                    res.append((cls, "read back %s for %s" % (str(back)[:90], str(v)[:90])))
            return res or None
        if op == 4060:
            tid = a[1]
            if o[:1] == [2]:
                c = o[1]
                if c == 7 and tid == 19:
                    cls = "nested_list_read_unbounded"
                elif c == 7:
                    cls = "reader_unbounded"
                else:
                    cls = "reader_panic"
                return (cls, "reader panicked (class %d) on %d arbitrary bytes for zoo type %d" % (c, len(a) - 3, tid))
            return None
        if op == 4070:
            t = PEQ_ZOO[a[1]]
            v1, p1 = dec_val(t, a, 2)
            v2, p2 = dec_val(t, a, p1)
            want = peq(t, normalise(t, v1), normalise(t, v2))
            if o != [0, 1 if want else 0]:
                return ("protobuf_eq_semantics", "protobuf_eq says %s, the property text says %s" % (o, want))
            return None
        return None

    def nontrivial(self, line, out):
        a = line.split()
        o = out.split()
        if a[0] == "4050":
            p = parse_4050(list(map(int, o)))
            return p["w"][0] == "ok" and len(p["w"][1]) > 0 and p.get("r", ("x",))[0] == "ok"
        if a[0] in ("4001", "4002", "4003", "4004", "4005", "4006", "4007"):
            return True
        return len(a) > 3


C17.theorems = ["C17_varint_roundtrip", "C17_zigzag_roundtrip", "C17_tag_roundtrip", "C17_number_roundtrip",
                "C17_roundtrip", "C17_backends_agree", "C17_known_classes", "C17_refuted_list_of_null",
                "C17_extensible_int_fixed",
                "C17_roundtrip_partial", "C17_roundtrip_flat_partial", "C17_backends_agree_partial",
                "C17_optional_null_fixed", "C17_refuted_choice_null", "C17_refuted_choice_list",
                "C17_refuted_nested_list", "C17_refuted_bitvec_excess", "C04_proto_refuted_bit_vec_short",
                "C04_proto_bit_string_fixed", "C04_proto_length_overflow_fixed", "C04_proto_trusted_length_fixed"]
SPEC = C17()
