"""C12 -- value references and imports resolve exactly like the literals they name.

Ops (harness/a1h/src/parse.rs, coq/Extract/OpsParse.v):
  3302 k (len code*len)*k          k module texts in load order through MultiModuleResolver (as converter.rs does)
  3304 n1 <3302 input> <3302 input>   two module sets; answer = len(answer 1) answer 1 answer 2
  3312 / 3314 m <m opaque ints> ...   the same behind a prefix: the JSON description of the case (decoded by this oracle)

A case is built from a generated module A (the C07 generator):
  subst     a subset of the numeric literals of INTEGER ranges and SIZE constraints and of the DEFAULT literals is
            replaced by fresh value references; the value assignments are placed in A itself, or in a sibling module
            (with an OID, matched by OID or by name; or without) that A IMPORTS them FROM; a decoy module defining the
            same names with other values may be loaded too; the load order is shuffled.  The *literal variant* is the
            same module set with the same added assignments and imports -- only the use sites keep their literals.
            ORACLE: both variants resolve, and to exactly the same dump (op 3304).
  dangling  one use site refers to a name that is defined nowhere / only in a module that is not imported / imported
            from a module that is not loaded / imported from a module that does not define it.
            ORACLE: resolve error FailedToResolveReference(name) (stage 2, kind 1); never a model.
  wrongkind an INTEGER range or SIZE use site refers to a BOOLEAN / string / octet-string value (local or imported).
            ORACLE: resolve error (stage 2); never a model.
  clash     one identifier bound in two namespaces that a DEFAULT / a constraint could mean: an item of an ENUMERATED type
            (local or imported) and a value assignment of the same name (local before / after the use, imported over one
            or two hops).  enum_wins: components `lvl Level-E DEFAULT item`; the *literal variant* has no value of that
            name at all (the assignment and its imports carry another name of the same length) and must resolve
            identically: the item of the component's ENUMERATED wins (X.680: the identifier of an EnumeratedValue).
            value_wins: `n INTEGER (0..100) DEFAULT name`, `SIZE(name)`, `(0..name)`, and a component of ANOTHER
            ENUMERATED type that has no such item; the literal variant renames the ITEM instead: the value reference
            is meant in both.  ORACLE: both variants resolve, to the same dump up to that one renamed identifier.
            named_number / ref_chain: `nn INTEGER { name(5) } DEFAULT name`, `x Chain-M1 DEFAULT item` with Chain-M1 ::= Level-E:
            the identifier of the component's own type should win exactly as in enum_wins; the crate resolves to the
            value with the same-named assignment and rejects the module set without it (known classes
            name_clash_named_number_ignored, name_clash_reference_chain_not_followed; any other difference is unknown).
  negsize   a SIZE use site refers to a negative INTEGER value; the literal variant writes the negative number.
            ORACLE: as subst (the literal variant is an error, so the referencing one has to be one as well;
            before repair fb434d2 of /repo the value was cast with `as usize` and wrapped).
"""
import copy
import itertools

from vlib import Spec
import C07

I64_MAX = C07.I64_MAX


def sites_of(A):
    """use sites of literals: list of (kind, container, key, literal, info)"""
    out = []
    for t in C07.all_types(A):
        k = t[0]
        if k == "INTEGER" and t[2] is not None:
            lo, hi, _ = t[2]
            for idx in (0, 1):
                v = t[2][idx]
                if isinstance(v, int) and not isinstance(v, bool) and -(2 ** 63) <= v <= I64_MAX:
                    info = "int_0_of_0_max" if (idx == 0 and v == 0 and hi == "MAX") else \
                           "int_i64max_of_min" if (idx == 1 and v == I64_MAX and lo == "MIN") else "range"
                    out.append(("int", t[2], idx, ["int", v], info))
        s = {"STR": 2, "OCTET": 1, "BITS": 2, "SEQOF": 2, "SETOF": 2}.get(k)
        if s is not None and t[s] is not None:
            sz = t[s]
            for key in ("n", "lo", "hi"):
                v = sz.get(key)
                if isinstance(v, int) and not isinstance(v, bool) and 0 <= v <= I64_MAX:
                    info = "size"
                    if sz["k"] == "range":
                        other = sz["hi" if key == "lo" else "lo"]
                        if (key == "lo" and v == 0 and other in ("MAX", I64_MAX)) or (key == "hi" and v == I64_MAX and other in (0, "MIN")):
                            info = "size_0_max"
                    out.append(("size", sz, key, ["int", v], info))
        if k in ("SEQUENCE", "SET"):
            for c in t[1]:
                if isinstance(c[3], list) and c[3][1][0] in ("int", "bool", "str", "hex", "bin"):
                    l = c[3][1]
                    if l[0] == "str" and (l[1] == "" or l[1] != l[1].strip() or any(ch in C07.SEP for ch in l[1])):
                        continue
                    out.append(("default", c[3], 1, l, "default:" + c[2][0]))
    return out


def type_for_literal(l, comp_kind=None):
    if l[0] == "int":
        return ["INTEGER", [], None]
    if l[0] == "bool":
        return ["BOOLEAN"]
    if l[0] == "str":
        return ["STR", 0, None]
    if l[0] == "hex":
        return ["OCTET", None]
    return ["BITS", [], None]


def render_set(mods, rng_seed):
    import random
    r = random.Random(rng_seed)
    texts = [C07.layout(r, C07.atoms(m), style=r.choice(["plain", "lines", "dense"])) for m in mods]
    ints = [len(texts)]
    for t in texts:
        ints.append(len(t))
        ints += [ord(c) for c in t]
    return texts, ints


def build_case(rng, A, kind):
    """-> (meta, ints) or None"""
    A = copy.deepcopy(A)
    A["empty_imports"] = False
    sites = sites_of(A)
    if kind == "negsize":
        sites = [s for s in sites if s[0] == "size"]
    if kind == "wrongkind":
        sites = [s for s in sites if s[0] in ("int", "size")]
    if not sites:
        return None
    # "sibling_import_oid_only": the IMPORTS clause carries an object identifier, the loaded module's header has none
    # (matched by name)
    # "two_hop_*": the names are imported from a middle module that declares nothing itself but imports them from the
    # declaring module (with / without object identifiers on either hop)
    place = rng.choice(["local", "sibling_oid", "sibling_oid_byname", "sibling_noid", "sibling_oid_only", "sibling_import_oid_only",
                        "two_hop_oid", "two_hop_noid"])
    two_hop = place.startswith("two_hop")
    if two_hop:
        place2 = place
        place = "sibling_oid" if place == "two_hop_oid" else "sibling_noid"
    sib_name = rng.choice(["Sibling", "Common-Defs", "Lib"])
    sib_oid = [["both", "iso", 1], ["num", rng.choice([2, 3, 840])], ["num", rng.choice([1, 5, 113549])]]
    if sib_name == A["name"]:
        sib_name = "Other-Defs"
    n = len(sites)
    if kind == "subst":
        chosen = rng.sample(range(n), min(n, rng.choice([1, 1, 2, 3, n, max(1, n // 2)])))
    else:
        chosen = [rng.randrange(n)]
    lit_A = copy.deepcopy(A)
    lit_sites = sites_of(lit_A)
    if kind == "negsize":
        lit_sites = [s for s in lit_sites if s[0] == "size"]
    if kind == "wrongkind":
        lit_sites = [s for s in lit_sites if s[0] in ("int", "size")]
    assigns = []
    infos = []
    bad_name = None
    for j, i in enumerate(sorted(chosen)):
        sk, cont, key, lit, info = sites[i]
        name = "vr%d-%s" % (j, rng.choice(["lo", "max", "x", "k9"]))
        val = lit
        if kind == "wrongkind":
            val = rng.choice([["bool", True], ["str", "abc"], ["hex", "0A"], ["str", "5"]])
            bad_name = name
        elif kind == "negsize":
            val = ["int", rng.choice([-1, -5, -(2 ** 63)])]
            lit_sites[i][1][lit_sites[i][2]] = val[1]
            bad_name = name
        elif kind == "dangling":
            bad_name = name
        cont[key] = ["id", name] if sk == "default" else ["ref", name]
        assigns.append(["val", name, type_for_literal(val), val])
        infos.append(info)
    mods_ref = []
    mods_lit = []
    dang = None
    if kind == "dangling":
        # (import cycles abort the harness child: kept rare, every abort costs the runner a restart)
        dang = "import_cycle" if rng.random() < 0.04 else rng.choice(["nowhere", "not_imported", "not_loaded", "not_defined_there"])
    if place == "local" and dang is None:
        for a in assigns:
            pos = rng.randint(0, len(A["items"]))
            A["items"].insert(pos, a)
            lit_A["items"].insert(pos, copy.deepcopy(a))
        mods_ref = [A]
        mods_lit = [lit_A]
    else:
        if dang == "nowhere":
            mods_ref = [A]
            mods_lit = [lit_A]
        else:
            sib = {"name": sib_name, "oid": None if place in ("sibling_noid", "sibling_import_oid_only") else sib_oid, "tagdefault": None, "imports": [],
                   "empty_imports": False, "items": list(assigns) + [["type", "Shared", None, ["BOOLEAN"]]]}
            if dang in ("not_defined_there", "import_cycle"):
                sib["items"] = [["type", "Shared", None, ["BOOLEAN"]]]
            imp_oid = None
            imp_name = sib_name
            if place in ("sibling_oid", "sibling_import_oid_only"):
                imp_oid = sib_oid
            elif place == "sibling_oid_only":
                imp_oid = sib_oid
                imp_name = "Renamed-Elsewhere"          # only the OID identifies the module
                if sib["oid"] is None:
                    sib["oid"] = sib_oid
            imp = [[a[1] for a in assigns], imp_name, imp_oid]
            if dang == "import_cycle":
                # the sibling imports the same names back from the referencing module: nobody defines them
                sib["imports"] = [[[a[1] for a in assigns], A["name"], None]]
            if dang != "not_imported":
                front = rng.random() < 0.5
                for m in (A, lit_A):
                    m["imports"] = ([copy.deepcopy(imp)] + m["imports"]) if front else (m["imports"] + [copy.deepcopy(imp)])
            mods_ref = [A, sib]
            mods_lit = [lit_A, copy.deepcopy(sib)]
            if two_hop and dang != "not_imported":
                mid_oid = [["both", "iso", 1], ["num", 7], ["num", rng.choice([11, 12])]] if place2 == "two_hop_oid" and rng.random() < 0.7 else None
                mid = {"name": "Middle-Defs", "oid": mid_oid, "tagdefault": None, "imports": [copy.deepcopy(imp)], "empty_imports": False,
                       "items": [["type", "Relay", None, ["BOOLEAN"]]]}
                for m in (A, lit_A):
                    for im in m["imports"]:
                        if im[0] == imp[0] and im[1] == imp[1]:
                            im[1] = "Middle-Defs"
                            im[2] = copy.deepcopy(mid_oid)
                mods_ref = [A, mid, sib]
                mods_lit = [lit_A, copy.deepcopy(mid), copy.deepcopy(sib)]
                place = place2
            if dang == "not_loaded":
                mods_ref = [A]
                mods_lit = [lit_A]
            elif rng.random() < 0.4:
                # a decoy defining the same names with other values; never imported
                decoy = {"name": "Decoy", "oid": [["num", 9], ["num", 9]], "tagdefault": None, "imports": [], "empty_imports": False,
                         "items": [["val", a[1], ["INTEGER", [], None], ["int", 4242]] for a in assigns]}
                if place in ("sibling_oid", "two_hop_oid") and sib.get("oid") is not None and rng.random() < 0.5:
                    # ... or another EDITION of the declaring module: same module name, another object identifier, other values;
                    # the import names the right one by its object identifier.  (With equal names the first loaded module whose
                    # name matches wins on the unchanged tree, so the right edition is kept in front of the other: see below.)
                    decoy["name"] = sib["name"]
                    decoy["oid"] = [["both", "iso", 1], ["num", 2], ["num", 999]]
                    decoy["same_name_edition"] = True
                mods_ref.append(decoy)
                mods_lit.append(copy.deepcopy(decoy))
    order = list(range(len(mods_ref)))
    rng.shuffle(order)
    # an edition of the same name is loaded after the module it shadows
    for i, m in enumerate(mods_ref):
        if m.get("same_name_edition"):
            j = next(k for k, x in enumerate(mods_ref) if x["name"] == m["name"] and not x.get("same_name_edition"))
            if order.index(i) < order.index(j):
                a_, b_ = order.index(i), order.index(j)
                order[a_], order[b_] = order[b_], order[a_]
    mods_ref = [mods_ref[i] for i in order]
    mods_lit = [mods_lit[i] for i in order]
    seed = rng.randrange(1 << 30)
    t_ref, i_ref = render_set(mods_ref, seed)
    meta = {"kind": kind, "place": place, "dangling": dang, "infos": infos, "bad": bad_name, "order": order, "texts": t_ref}
    if kind in ("subst", "negsize"):
        t_lit, i_lit = render_set(mods_lit, seed)
        meta["lit_texts"] = t_lit
        return C07.case_line(3314, meta, [len(i_ref)] + i_ref + i_lit)
    return C07.case_line(3312, meta, i_ref)


def rename_len_preserving(nm):
    return ("z" if nm[0] != "z" else "y") + nm[1:]


def build_clash(rng, A):
    """-> case line or None (see the module docstring, kind `clash`)"""
    A = copy.deepcopy(A)
    A["empty_imports"] = False
    family = rng.choice(["enum_wins", "enum_wins", "enum_wins", "enum_wins", "value_wins", "value_wins", "named_number", "ref_chain"])
    enum_place = rng.choice(["local", "local", "imported"]) if family != "named_number" else "none"
    val_place = rng.choice(["local", "local", "local", "sibling", "sibling_oid", "two_hop"])
    eitems = [[x, None] for x in rng.sample(C07.ITEM_NAMES + ["medium"], rng.randint(2, 5))]
    if rng.random() < 0.3:
        for i, it in enumerate(eitems):
            it[1] = 3 * i + 1
    eext = rng.choice([None, None, len(eitems)])
    ename, uname, oname = "Level-E", "Clash-Use", "Other-E"
    nm = rng.choice(eitems)[0]
    n2 = rename_len_preserving(nm)
    taken = {it[1] for it in A["items"]}
    if {nm, n2, ename, uname, oname, "Chain-M1", "Chain-M2"} & taken:
        return None
    if any(l[0] == "id" and l[1] in (nm, n2) for l, _ in C07.all_literals(A)):
        return None
    v = rng.randint(0, 100)
    val = ["val", nm, ["INTEGER", [], None], ["int", v]]
    edef = ["type", ename, rng.choice([None, None, [2, 3]]), ["ENUM", eitems, eext]]
    # the uses
    if family == "enum_wins":
        comps = [["lvl", rng.choice([None, [2, 0]]), ["REF", ename, None], ["DEFAULT", ["id", nm]]]]
        if rng.random() < 0.4:
            comps.append(["lvl2", [2, 1], ["REF", ename, None], ["DEFAULT", ["id", nm]]])
        if rng.random() < 0.5:
            comps.insert(rng.randint(0, len(comps)), ["flag", None, ["BOOLEAN"], rng.choice([None, "OPTIONAL"])])
    elif family == "named_number":
        # known deviation F12-4: the named number of the component's own type should win (X.680)
        named = [[nm, 5]] + [[x, 300 + i] for i, x in enumerate(C07.ITEM_NAMES[:rng.randint(0, 2)]) if x not in (nm, n2)]
        rng.shuffle(named)
        comps = [["nn", rng.choice([None, [2, 0]]), ["INTEGER", named, rng.choice([None, [0, 1000, False]])], ["DEFAULT", ["id", nm]]]]
        v = 16
        val = ["val", nm, ["INTEGER", [], None], ["int", v]]
    elif family == "ref_chain":
        # known deviation F12-5: the item of the ENUMERATED reached through type references should win
        last = ename
        for h in range(rng.choice([1, 1, 2])):
            A["items"].insert(rng.randint(0, len(A["items"])), ["type", "Chain-M%d" % (h + 1), rng.choice([None, None, [2, 7]]), ["REF", last, None]])
            last = "Chain-M%d" % (h + 1)
        comps = [["x", rng.choice([None, [2, 0]]), ["REF", last, None], ["DEFAULT", ["id", nm]]]]
    else:
        pool = [["n", None, ["INTEGER", [], [0, 100, False]], ["DEFAULT", ["id", nm]]],
                ["o", None, ["OCTET", {"k": "fix", "n": ["ref", nm], "ext": False, "paren": True}], None],
                ["i", None, ["INTEGER", [], [0, ["ref", nm], False]], None],
                ["lv2", None, ["REF", oname, None], ["DEFAULT", ["id", nm]]],
                ["so", None, ["SEQOF", ["BOOLEAN"], {"k": "range", "lo": 0, "hi": ["ref", nm], "ext": False, "paren": True}], None]]
        comps = rng.sample(pool, rng.randint(1, len(pool)))
        if any(c[0] == "lv2" for c in comps):
            other = [[x, None] for x in C07.ITEM_NAMES if x not in (nm, n2)][:rng.randint(1, 3)]
            A["items"].insert(rng.randint(0, len(A["items"])), ["type", oname, None, ["ENUM", other, None]])
    use = ["type", uname, None, [rng.choice(["SEQUENCE", "SET"]), comps, None]]
    A["items"].insert(rng.randint(0, len(A["items"])), use)
    mods = [A]
    if enum_place == "none":
        pass
    elif enum_place == "local":
        A["items"].insert(rng.randint(0, len(A["items"])), edef)
    else:
        eoid = rng.choice([None, [["both", "iso", 1], ["num", 4], ["num", 44]]])
        mods.append({"name": "Enum-Lib", "oid": eoid, "tagdefault": None, "imports": [], "empty_imports": False,
                     "items": [edef, ["type", "Shared-E", None, ["NULL"]]]})
        A["imports"] = A["imports"] + [[[ename], "Enum-Lib", copy.deepcopy(eoid) if rng.random() < 0.5 else None]]
    if val_place == "local":
        A["items"].insert(rng.randint(0, len(A["items"])), val)          # before or after the use
    else:
        void = [["both", "iso", 1], ["num", 5], ["num", 55]] if val_place == "sibling_oid" else None
        lib = {"name": "Vals-Lib", "oid": void, "tagdefault": None, "imports": [], "empty_imports": False,
               "items": [val, ["type", "Shared-V", None, ["BOOLEAN"]]]}
        imp = [[nm], "Vals-Lib", copy.deepcopy(void)]
        if val_place == "two_hop":
            mods.append({"name": "Middle-Defs", "oid": None, "tagdefault": None, "imports": [imp], "empty_imports": False,
                         "items": [["type", "Relay", None, ["BOOLEAN"]]]})
            imp = [[nm], "Middle-Defs", None]
        if rng.random() < 0.5:
            A["imports"] = [imp] + A["imports"]
        else:
            A["imports"] = A["imports"] + [imp]
        mods.append(lib)
    # the literal variant: the same module set with ONE identifier renamed (same length): the value in enum_wins
    # (so that no value of that name exists), the item in value_wins (so that no item of that name exists)
    lit = copy.deepcopy(mods)
    for m in lit:
        if family != "value_wins":
            for it in m["items"]:
                if it[0] == "val" and it[1] == nm:
                    it[1] = n2
            for im in m["imports"]:
                im[0] = [n2 if w == nm else w for w in im[0]]
        else:
            for it in m["items"]:
                if it[0] == "type" and it[1] == ename:
                    for e in it[3][1]:
                        if e[0] == nm:
                            e[0] = n2
    order = list(range(len(mods)))
    rng.shuffle(order)
    mods = [mods[i] for i in order]
    lit = [lit[i] for i in order]
    seed = rng.randrange(1 << 30)
    t_ref, i_ref = render_set(mods, seed)
    t_lit, i_lit = render_set(lit, seed)
    meta = {"kind": "clash", "family": family, "enum_place": enum_place, "place": val_place, "n1": nm, "n2": n2,
            "dangling": None, "infos": [], "bad": None, "order": order, "texts": t_ref, "lit_texts": t_lit}
    return C07.case_line(3314, meta, [len(i_ref)] + i_ref + i_lit)


def subst_ints(a, old, new):
    """replace every occurrence of the int sequence `old` in `a` by `new`"""
    out = []
    i = 0
    n = len(old)
    while i < len(a):
        if a[i:i + n] == old:
            out += new
            i += n
        else:
            out.append(a[i])
            i += 1
    return out


class C12(Spec):
    prop = "C12"
    coq_targets = ["Props/C12.vo"]
    prop_module = "Props.C12"
    theorems = ["C12_subst_bound_partial", "C12_subst_size_bound_partial", "C12_subst_default_partial", "C12_unresolved_is_error",
                "C12_non_integer_is_error", "C12_negative_size_is_error", "C12_fixed_negative_size_reference_is_error",
                "C12_refuted_reference_in_0_max_range_not_folded", "C12_refuted_reference_in_size_0_max_extensible_accepted",
                "C12_refuted_cyclic_import_diverges",
                "C12_subst_type", "C12_subst_definition", "C12_subst_module", "C12_subst_all",
                "C12_literalize_type", "C12_literalize_module", "C12_literalize_all", "C12_literalize_is_abstraction",
                "C12_literalize_complete_type", "C12_literalize_complete_module",
                "C12_unresolved_is_error_type", "C12_unresolved_is_error_module", "C12_unresolved_is_error_all",
                "C12_non_integer_is_error_type", "C12_non_integer_is_error_module", "C12_non_integer_is_error_all",
                "C12_order_irrelevant_module", "C12_order_irrelevant_all", "C12_order_irrelevant_all_error",
                "C12_subst_nonvacuous", "C12_error_nonvacuous", "C12_order_nonvacuous",
                "C12_refuted_load_order_matters_with_duplicate_module_names",
                "C12_enum_default_precedence", "C12_enum_default_other_item_is_value", "C12_non_reference_default_is_value", "C12_enum_default_precedence_nonvacuous"]
    MODEL_OPS = {3302, 3304, 3312, 3314}
    builds = [("default", "dev"), ("default", "release")]
    level_text = ('A hand-written Gallina model of ResolveScope / MultiModuleResolver (local first, then the first import listing '
                  'the name, module matched by OID equality when the candidate has one, else by name; unbounded recursion on '
                  'cyclic imports modelled as divergence) on top of the parser model is tied to the crate by differential '
                  'execution of whole module sets (ops 3302/3304). Theorems (Front/{ResolveProofs,ResolveSubstProofs}.v): the '
                  'substitution theorem lifted over the whole AST, modules and module sets (C12_subst_type/definition/module/all: '
                  'replacing references by the literals they are bound to does not change the resolved model; C12_literalize_* '
                  'give the substitution as a function and its completeness), unresolved / non-integer / negative-SIZE references '
                  'are errors at type, module and set level, load-order irrelevance under unique_targets '
                  '(C12_order_irrelevant_*), and vm_compute witnesses of the refuted classes (duplicate module names make load '
                  'order matter).')
    rule = ("modules of the C07 generator; every non-empty kind of use site (INTEGER range bounds incl. the 0 of 0..MAX, SIZE "
            "numbers incl. SIZE(0..MAX), DEFAULT literals of kind integer/boolean/string/hstring/bstring); subsets of size 1, 2, 3, "
            "half, all; placement local / sibling with OID (import by OID+name, by name only, by OID only under another name) / "
            "sibling without OID / two hops through a middle module that only re-imports the names; optional decoy module with the same names; all load orders by shuffling; dangling (4 kinds), "
            "wrong-kind (boolean, string, octet string) and negative-SIZE references; name clashes between an ENUMERATED item and a value "
            "assignment (enum local / imported; value local before / after the use, one hop, one hop by OID, two hops; DEFAULT of the "
            "enumerated component vs INTEGER DEFAULT / SIZE / range bound / component of another ENUMERATED). non-trivial = the referencing variant "
            "resolved to a model (subst) or was rejected (others); distinct = distinct case line")
    assumptions_text = ["the integer dump of Model<Asn<Resolved>> in harness/a1h/src/parse.rs"]
    xcheck_n = 30
    timeout_per_chunk = 300

    def __init__(self):
        self._last = None

    def model_line(self, line, build):
        op = int(line.split(None, 1)[0])
        return line if op in self.MODEL_OPS else "3399"

    def canon(self, out):
        # see C07.canon: vacuous only for ops the Coq model does not implement (its answer is "-1")
        if out == "-1":
            return self._last
        self._last = out
        return out

    def gen(self, rng, tier):
        n = 1500 if tier == "quick" else 80000
        max_cycles = 3 if tier == "quick" else 200      # every abort of the harness child costs the runner a restart
        cycles = 0
        L = []
        tries = 0
        while len(L) < n and tries < 20 * n:
            tries += 1
            g = C07.Gen(rng, special=0.0, max_depth=rng.choice([1, 2, 3, 4]))
            A = g.module()
            if any(c in (C07.Q_NAMED_DEFAULT, C07.Q_CHAIN_DEFAULT) for c, _, _ in C07.rejection_triggers(A)):
                continue        # the base module does not resolve (known classes of C07); the two families are generated by build_clash
            k = rng.random()
            kind = "subst" if k < 0.6 else "clash" if k < 0.73 else "dangling" if k < 0.86 else "wrongkind" if k < 0.95 else "negsize"
            c = build_clash(rng, A) if kind == "clash" else build_case(rng, A, kind)
            if c is not None:
                if '"import_cycle"' in bytes(int(x) for x in c.split()[2:2 + int(c.split()[1])]).decode():
                    cycles += 1
                    if cycles > max_cycles:
                        continue
                L.append(c)
        return L

    def oracle(self, line, out, build):
        try:
            op, meta, _ = C07.split_line(line)
        except Exception:
            return None
        if meta is None or op not in (3312, 3314):
            return None
        o = [int(x) for x in out.split()]
        if o[:1] == [3]:
            if meta.get("dangling") == "import_cycle" and o[1:2] == [32]:
                return [("resolver_unbounded_recursion_on_cyclic_import",
                         "two modules import an undefined name from each other: ResolveScope::value_reference recurses without "
                         "bound (stack overflow, process abort) instead of FailedToResolveReference: %s" % " || ".join(meta["texts"]))]
            return [("front_end_crash", "crash/hang %s on %s" % (o, meta["texts"]))]
        kind = meta["kind"]
        show = " || ".join(meta["texts"])
        if kind in ("dangling", "wrongkind"):
            if o[:1] == [2]:
                return [("resolver_panic", "panic %s on: %s" % (o, show))]
            if o[:2] == [1, 1]:
                return None             # the module set does not parse (a C07 matter), nothing to resolve
            if o[:1] == [0]:
                cls = "dangling_reference_resolved" if kind == "dangling" else "non_integer_reference_accepted_as_bound"
                return [(cls, "%s reference %s (%s) gave a model instead of a resolve error: %s" % (kind, meta["bad"], meta["dangling"], show))]
            if o[:2] == [1, 2]:
                if kind == "dangling" and (o[2] != 1 or o[3:] != C07.c_str(meta["bad"])):
                    # another reference may legitimately fail first only if it is also unresolvable: there is none by construction
                    return [("dangling_reference_wrong_error", "expected FailedToResolveReference(%s), got %s on: %s" % (meta["bad"], o[2:], show))]
                return None
            return [("malformed_answer", str(o[:20]))]
        # subst / negsize: pair answer
        n1 = o[0]
        a_ref, a_lit = o[1:1 + n1], o[1 + n1:]
        if a_ref == a_lit:
            return None
        lit_show = " || ".join(meta["lit_texts"])
        if a_ref[:1] == [2] or a_lit[:1] == [2]:
            return [("resolver_panic", "panic (%s / %s) on: %s" % (a_ref[:3], a_lit[:3], show))]
        if kind == "clash":
            if a_ref[:1] != [0] and a_lit[:1] != [0]:
                return None             # neither variant resolves (something else in the surrounding module): nothing to compare
            lit_show = " || ".join(meta["lit_texts"])
            what = ("the item of the component's ENUMERATED is meant by DEFAULT %s" % meta["n1"]) if meta["family"] == "enum_wins" \
                else ("the value reference %s is meant (INTEGER component / SIZE / range / component of an ENUMERATED without that item)" % meta["n1"])
            known = {"named_number": ("name_clash_named_number_ignored",
                                      "DEFAULT %s on an INTEGER component with the named number %s: the named number should be meant with or "
                                      "without a value assignment of that name (X.680); the crate looks the identifier up as a value reference "
                                      "only: the module set resolves (to the value's literal) with the same-named value assignment and is rejected "
                                      "with FailedToResolveReference without it" % (meta["n1"], meta["n1"])),
                     "ref_chain": ("name_clash_reference_chain_not_followed",
                                   "DEFAULT %s on a component whose type reaches the ENUMERATED through type references: the item should be meant "
                                   "with or without a value assignment of that name (X.680); the crate inspects only a definition that is itself "
                                   "an ENUMERATED: the module set resolves (to the value's literal) with the same-named value assignment and is "
                                   "rejected with FailedToResolveReference without it" % meta["n1"])}.get(meta["family"])
            if known is not None and a_ref[:1] == [0] and a_lit == [1, 2, 1] + C07.c_str(meta["n1"]):
                return [(known[0], "%s (value %s, enum %s): %s || without the value: %s" % (known[1], meta["place"], meta["enum_place"], show, lit_show))]
            if known is not None:
                what = "the identifier of the component's own type is meant by DEFAULT %s" % meta["n1"]
            if a_ref[:1] != [0] or a_lit[:1] != [0]:
                return [("name_clash_changes_resolvability",
                         "%s; with the clashing %s present the module set %s, without it it %s (value %s, enum %s): %s || without the clash: %s" %
                         (what, "value assignment" if meta["family"] == "enum_wins" else "ENUMERATED item",
                          "resolves" if a_ref[:1] == [0] else "fails %s" % a_ref[:8], "resolves" if a_lit[:1] == [0] else "fails %s" % a_lit[:8],
                          meta["place"], meta["enum_place"], show, lit_show))]
            if subst_ints(a_lit, C07.c_str(meta["n2"]), C07.c_str(meta["n1"])) == a_ref:
                return None
            return [("name_clash_resolved_in_wrong_namespace",
                     "%s; the model resolved with the clash differs from the one without (value %s, enum %s): %s || without the clash: %s" %
                     (what, meta["place"], meta["enum_place"], show, lit_show))]
        if kind == "negsize":
            if a_ref[:1] == [0]:
                return [("negative_value_reference_as_size_wraps",
                         "a SIZE bound that refers to a negative INTEGER value resolves (value as usize wraps to 2^64-|v|) where the "
                         "literal is rejected (%s): %s" % (a_lit[:3], show))]
            return None                 # both rejected (repair fb434d2; the error values name different things)
        if a_lit[:1] != [0]:
            if a_ref[:1] != [0]:
                return None             # neither variant resolves: nothing to compare (a C07 matter)
            if "size_0_max" in meta["infos"] and a_lit[:2] == [1, 1]:
                return [("reference_in_size_0_max_extensible_accepted",
                         "SIZE(0..MAX, ...) is a parse error only when 0 and MAX are literals; with a reference it is accepted: %s" % show)]
            return [("reference_accepted_where_literal_rejected", "literal variant %s, referencing variant resolves: %s || literal: %s" % (a_lit[:4], show, lit_show))]
        if a_ref[:1] != [0]:
            return [("reference_not_resolved", "literal variant resolves, referencing variant fails with %s (placement %s, order %s): %s" %
                     (a_ref[:12], meta["place"], meta["order"], show))]
        infos = set(meta["infos"])
        if "int_0_of_0_max" in infos or "int_i64max_of_min" in infos:
            return [("reference_in_0_max_range_not_folded",
                     "INTEGER (0..MAX) is folded to 'unconstrained' only when the 0 is a literal: with a reference the bound is kept "
                     "(literal and reference resolve differently): %s || literal: %s" % (show, lit_show))]
        p = 0
        while p < min(len(a_ref), len(a_lit)) and a_ref[p] == a_lit[p]:
            p += 1
        return [("reference_resolves_differently", "dumps differ at offset %d (%s vs %s), placement %s: %s || literal: %s" %
                 (p, a_ref[max(0, p - 2):p + 5], a_lit[max(0, p - 2):p + 5], meta["place"], show, lit_show))]

    def nontrivial(self, line, out):
        a = line.split(None, 1)[0]
        o = out.split()
        if a == "3314":
            return len(o) > 3 and (o[1] == "0" or o[1:3] == ["1", "2"])
        return o[:2] == ["1", "2"]


SPEC = C12()
