"""C07 -- parsing preserves every declared element of an ASN.1 module.

Ops (harness/a1h/src/parse.rs, coq/Extract/OpsParse.v):
  3301 <code point>...                      tokenize, Model::try_from, try_resolve; canonical integer dump of the
                                            resolved Model<Asn<Resolved>> (format: header of parse.rs)
  3311 k <k opaque ints> <code point>...    the same on the text after the prefix; the prefix is the JSON text of the
                                            abstract module A the text was printed from (this file's oracle decodes it,
                                            so a replay needs nothing but the case line)

The ORACLE is independent of the model and of the crate's parser: a grammar-based generator draws an abstract
module A (Python data), `atoms(A)` + `layout` print it (random white space / comments between lexical items),
and `canon(A)` computes, from A alone, the dump a faithful front end has to produce (the fixed canonical
projection onto the crate's model types: OPTIONAL -> Type::Optional, DEFAULT -> Asn.default, MAX of a SIZE ->
i64::MAX, SIZE(n..n) = SIZE(n), extension marker after k root components -> Some(k-1)).  Where the crate's dump
differs, the deviation is explained by *named quirks* -- each a narrow syntactic family recognised in A -- and
every quirk that is needed to explain the dump is reported as its own class; anything else is
`unexplained_mismatch`.
"""
import json

from vlib import Spec

I64_MAX = 2 ** 63 - 1
CHARSETS = ["UTF8String", "NumericString", "PrintableString", "IA5String", "VisibleString"]   # dump codes 0..4
SEP = ":;=(){}.,[]'\""

TYPE_NAMES = ["Alpha", "Beta", "Gamma-Ray", "Delta2", "T", "Msg", "Inner-Type", "Speed", "Colour", "Id64", "Xy-Z9",
              "Position", "Header", "Payload", "Kind", "Flags", "Octets", "Wrapper", "Node", "Leaf", "Value-Range"]
FIELD_NAMES = ["a", "b", "c", "id", "name", "speed", "flag", "inner", "list-of", "x1", "y-2", "value", "kind", "data",
               "opt-val", "len", "count", "first", "second", "third", "payload", "header", "tail", "z"]
ITEM_NAMES = ["red", "green", "blue", "dark-red", "none", "some", "low", "high", "mid", "on", "off", "v1", "v2", "item-3"]
VALUE_NAMES = ["maxLen", "minLen", "default-speed", "limit", "c0", "upper-bound", "lowerBound", "k", "n-max"]
MODULE_NAMES = ["Mod", "Basic", "My-Protocol", "Types2", "A", "Sibling", "Common-Defs", "Pdu"]
KEYWORD_LIKE = {"integer": [1, 0, 0, 0, 0], "boolean": [0], "null": [5], "set": None, "choice": None, "sequence": None,
                "enumerated": None, "bit": None, "octet": None}
STRINGS = ["abc", "x", "hello", "Hello World", "a b c", "Z9", "abc-def", "a_b", "0", "q r"]


# ====================================================================== generator of abstract modules

class Gen:
    def __init__(self, rng, special=0.05, max_depth=5):
        self.rng = rng
        self.special = special          # probability scale of the rare / deviation-prone forms
        self.max_depth = max_depth
        self.defs = {}                  # name -> pre-generated type (ENUM / INTEGER) for typed defaults
        self.names = []
        self.imported = []

    def rare(self, w=1.0):
        return self.rng.random() < self.special * w

    # ---- small things
    def tag(self, p=0.3):
        r = self.rng
        if r.random() >= p:
            return None
        return [r.choice([0, 1, 2, 2, 2, 3]), r.choice([0, 1, 2, 3, 5, 7, 30, 31, 127, 1000])]

    def bound(self, lo=-(2 ** 40), hi=2 ** 40):
        r = self.rng
        k = r.random()
        if k < 0.5:
            return r.choice([-129, -128, -1, 0, 1, 2, 5, 7, 63, 127, 128, 255, 256, 65535, 65536])
        if k < 0.8:
            return r.randint(-300, 300)
        if k < 0.9:
            return r.choice([-(2 ** 31), 2 ** 31 - 1, 2 ** 32 - 1, 2 ** 32, -(2 ** 63), 2 ** 63 - 1, 2 ** 63 - 2])
        return r.randint(lo, hi)

    def int_range(self):
        r = self.rng
        k = r.random()
        if k < 0.3:
            return None
        ext = r.random() < 0.25
        if k < 0.8:
            a, b = sorted([self.bound(), self.bound()])
            return [a, b, ext]
        if k < 0.86:
            return [self.bound(), "MAX", ext]
        if k < 0.90:
            return [0, "MAX", ext]
        if k < 0.95:
            return ["MIN", self.bound(), ext]
        if k < 0.98:
            return ["MIN", "MAX", ext]
        if self.rare(4):
            return r.choice([["MIN", I64_MAX, ext], [0, 2 ** 64 - 1, ext], [-(2 ** 63) - 1, 5, ext]])
        return [0, self.bound(0, 2 ** 40) if r.random() < 0.5 else 255, ext]

    def named_numbers(self, negative=True):
        r = self.rng
        if r.random() < 0.75:
            return []
        n = r.randint(1, 4)
        names = r.sample(ITEM_NAMES, n)
        return [[nm, r.choice([0, 1, 2, 7, 15, 255, 65535] + ([-1, -128] if negative else []))] for nm in names]

    def size(self, p=0.5):
        r = self.rng
        if r.random() >= p:
            return None
        paren = r.random() < 0.7
        ext = r.random() < 0.25
        k = r.random()
        small = [0, 1, 2, 3, 4, 8, 16, 20, 64, 255, 256, 65535, 65536]
        if k < 0.3:
            return {"k": "fix", "n": r.choice(small), "ext": ext, "paren": paren}
        if k < 0.8:
            a, b = sorted([r.choice(small), r.choice(small)])
            return {"k": "range", "lo": a, "hi": b, "ext": ext, "paren": paren}
        if k < 0.87:
            return {"k": "range", "lo": r.choice(small[1:]), "hi": "MAX", "ext": ext, "paren": paren}
        if k < 0.92:
            return {"k": "range", "lo": "MIN", "hi": r.choice(small), "ext": ext, "paren": paren}
        if k < 0.96:
            return {"k": "range", "lo": 0, "hi": "MAX", "ext": ext and self.rare(6), "paren": paren}
        if k < 0.98:
            return {"k": "range", "lo": "MIN", "hi": "MAX", "ext": False, "paren": paren}
        return {"k": "range", "lo": 0, "hi": r.choice([I64_MAX, 1, 5]), "ext": ext, "paren": paren}

    def string_lit(self):
        r = self.rng
        if self.rare(3):
            return r.choice(["", " lead", "trail ", "(x)", "a,b", "two  spaces", ".", "x y.z"])
        return r.choice(STRINGS)

    # ---- types
    def leaf(self):
        r = self.rng
        k = r.random()
        if k < 0.30:
            return ["INTEGER", self.named_numbers(), self.int_range()]
        if k < 0.40:
            return ["BOOLEAN"]
        if k < 0.46:
            return ["NULL"]
        if k < 0.60:
            return ["STR", r.randrange(5), self.size()]
        if k < 0.70:
            return ["OCTET", self.size()]
        if k < 0.80:
            return ["BITS", self.named_numbers(negative=False), self.size()]
        return self.ref()

    def ref(self):
        r = self.rng
        pool = self.names + self.imported
        name = r.choice(pool) if pool and r.random() < 0.9 else r.choice(TYPE_NAMES)
        wc = None
        if self.rare(2) and name.lower() not in KEYWORD_LIKE:
            wc = r.choice([["...", ",", "a", "PRESENT"], ["a", "ABSENT", ",", "b", "OPTIONAL"],
                           ["...", ",", "a", "(", "0", "..", "5", ")"], ["x", "(", "1", ")", "PRESENT"]])
        return ["REF", name, wc]

    def enum(self):
        r = self.rng
        n = r.randint(1, 6)
        names = r.sample(ITEM_NAMES, n)
        numbered = r.random() < 0.4
        items = []
        nums = r.sample(range(0, 40), n)
        for i, nm in enumerate(names):
            items.append([nm, (nums[i] if r.random() < 0.8 else None) if numbered else None])
        ext = r.randint(1, n) if r.random() < 0.35 else None
        return ["ENUM", items, ext]

    def gen_type(self, depth):
        r = self.rng
        if depth >= self.max_depth or r.random() < 0.35:
            return self.leaf()
        k = r.random()
        if k < 0.30:
            return self.components("SEQUENCE", depth)
        if k < 0.42:
            return self.components("SET", depth)
        if k < 0.60:
            return self.choice(depth)
        if k < 0.72:
            return self.enum()
        if k < 0.88:
            return ["SEQOF", self.gen_type(depth + 1), self.size(0.4)]
        return ["SETOF", self.gen_type(depth + 1), self.size(0.4)]

    def default_for(self, t):
        """a DEFAULT literal fitting the component type, or None"""
        r = self.rng
        k = t[0]
        if k == "INTEGER":
            rng_ = t[2]
            if rng_ and isinstance(rng_[0], int) and isinstance(rng_[1], int) and -(2 ** 63) <= rng_[0] <= rng_[1] <= I64_MAX:
                return ["int", r.choice([rng_[0], rng_[1], r.randint(rng_[0], rng_[1])])]
            if rng_ and isinstance(rng_[0], int) and -(2 ** 63) <= rng_[0] <= I64_MAX:
                return ["int", rng_[0]]
            return ["int", r.choice([0, 1, 5, -1, 42, 65535])]
        if k == "BOOLEAN":
            return ["bool", r.random() < 0.5]
        if k == "STR":
            s = self.string_lit()
            if t[1] == 1:
                s = r.choice(["0", "12", "1 2", "007"])
            return ["str", s]
        if k == "OCTET":
            return ["hex", r.choice(["00", "AB", "0123", "DEADBEEF", "ff00"] + (["ABC", "1"] if self.rare(4) else []))]
        if k == "BITS":
            if r.random() < 0.3:
                return ["hex", r.choice(["80", "F0F0"])]
            return ["bin", r.choice(["00000000", "10000000", "1010101001010101"] + (["1", "0101", "110", "101010101"] if self.rare(6) else []))]
        if k == "REF" and t[2] is None and t[1] in self.defs:
            d = self.defs[t[1]]
            if d[0] == "ENUM":
                return ["id", r.choice(d[1])[0]]
            if d[0] == "INTEGER":
                return ["int", r.choice([0, 1, 7])]
        if k == "ENUM" and self.rare(3):
            return ["id", r.choice(t[1])[0]]
        return None

    def components(self, kind, depth):
        r = self.rng
        n = r.choice([0, 1, 1, 2, 2, 3, 3, 4, 5]) if r.random() < 0.9 else r.randint(6, 9)
        names = r.sample(FIELD_NAMES, n)
        comps = []
        for nm in names:
            t = self.gen_type(depth + 1)
            o = r.random()
            opt = None
            if o < 0.25:
                opt = "OPTIONAL"
            elif o < 0.45:
                d = self.default_for(t)
                opt = ["DEFAULT", d] if d is not None else "OPTIONAL"
            comps.append([nm, self.tag(0.3), t, opt])
        ext = None
        if r.random() < 0.35:
            k = r.randint(1, n) if n and r.random() < 0.85 else r.randint(0, n)
            if k == 0 and not self.rare(6):
                k = n
            k2 = None
            if k < n and self.rare(2):
                k2 = r.randint(k + 1, n)
            ext = [k, k2]
        return [kind, comps, ext]

    def choice(self, depth):
        r = self.rng
        n = r.choice([1, 2, 2, 3, 3, 4, 5])
        names = r.sample(FIELD_NAMES, n)
        alts = [[nm, self.tag(0.35), self.gen_type(depth + 1)] for nm in names]
        ext = r.randint(1, n) if r.random() < 0.35 else None
        return ["CHOICE", alts, ext]

    def oid(self, p=0.4):
        r = self.rng
        if r.random() >= p:
            return None
        comps = []
        for _ in range(r.randint(1, 6)):
            k = r.random()
            if k < 0.4:
                comps.append(["num", r.choice([0, 1, 2, 3, 4, 5, 102894, 302637])])
            elif k < 0.8:
                comps.append(["both", r.choice(["iso", "itu-t", "etsi", "version", "wg1", "ts"]), r.choice([0, 1, 2, 4, 5, 102894])])
            else:
                comps.append(["name", r.choice(["iso", "itu-t", "ccitt", "joint-iso-itu-t", "standard"])])
        return comps

    def value_assignment(self, name):
        r = self.rng
        k = r.random()
        if k < 0.5:
            t = ["INTEGER", [], self.int_range() if r.random() < 0.3 else None]
            return ["val", name, t, ["int", self.bound(-(2 ** 40), 2 ** 40)]]
        if k < 0.6:
            return ["val", name, ["BOOLEAN"], ["bool", r.random() < 0.5]]
        if k < 0.75:
            return ["val", name, ["STR", r.choice([0, 2, 3, 4]), self.size(0.2)], ["str", self.string_lit()]]
        if k < 0.83:
            return ["val", name, ["OCTET", None], ["hex", r.choice(["00", "AB", "0123", "DEADBEEF"])]]
        if k < 0.88:
            return ["val", name, ["BITS", [], None], ["bin", r.choice(["00000000", "1111000011110000"])]]
        pool = [n for n, d in self.defs.items() if d[0] == "INTEGER"]
        if pool:
            return ["val", name, ["REF", r.choice(pool), None], ["int", r.choice([0, 1, 2, 3])]]
        return ["val", name, ["INTEGER", [], None], ["int", r.randint(0, 1000)]]

    def module(self, name=None, n_defs=None):
        r = self.rng
        n = n_defs if n_defs is not None else r.choice([1, 1, 2, 2, 3, 3, 4, 5, 6, 8])
        self.names = r.sample(TYPE_NAMES, min(n, len(TYPE_NAMES)))
        if self.rare(1.5):
            # legal typereferences that differ from a keyword only by case (X.680 12.2: keywords are upper case)
            self.names[r.randrange(len(self.names))] = r.choice(["Integer", "Boolean", "Null", "Integer", "Set", "Choice", "End"])
        mname = name or r.choice(MODULE_NAMES)
        if name is None and self.rare(1):
            mname = r.choice(["Proto-Module", "Defs_Module", "XModule", "Module"])
        imports = []
        self.imported = []
        if r.random() < 0.3:
            for _ in range(r.randint(0, 3)):
                what = r.sample(["Imp-A", "ImpB", "Other", "Speed-Imp", "imp-val", "limit2"], r.randint(1, 3))
                frm = r.choice(["Sibling", "Common-Defs", "Ext2", "Lib"] + (["Lib-Module"] if self.rare(1) else []))
                imports.append([what, frm, self.oid(0.4)])
                self.imported += [w for w in what if w[0].isupper()]
        # pre-generated ENUM / INTEGER definitions that typed defaults can refer to
        self.defs = {}
        for nm in self.names:
            k = r.random()
            if k < 0.15:
                self.defs[nm] = self.enum()
            elif k < 0.25:
                self.defs[nm] = ["INTEGER", self.named_numbers(), self.int_range()]
        items = []
        vals = r.sample(VALUE_NAMES, r.choice([0, 0, 0, 1, 1, 2, 3]))
        for nm in self.names:
            t = self.defs.get(nm) or self.gen_type(0)
            items.append(["type", nm, self.tag(0.25), t])
        if self.rare(0.5):
            vals.append("end")
        for v in vals:
            items.insert(r.randint(0, len(items)), self.value_assignment(v))
        res = {"name": mname, "oid": self.oid(0.35), "tagdefault": r.choice([None, "AUTOMATIC", "AUTOMATIC", "EXPLICIT", "IMPLICIT"]),
               "imports": imports, "empty_imports": r.random() < 0.1, "items": items}
        if r.random() < 0.12:
            self.inject_clash(items)
        if r.random() < 0.05:
            self.inject_own_type_identifier(items)
        return res

    def inject_own_type_identifier(self, items):
        """DEFAULT <identifier> where the identifier belongs to the component's own type in a way the crate does not
        look at (classes default_named_number_not_consulted, default_item_through_reference_chain_not_followed), without
        and with a value assignment of the same name"""
        r = self.rng
        if any(it[1].lower() == "end" for it in items):
            return
        vals = {it[1] for it in items if it[0] == "val"}
        with_value = r.random() < 0.5
        if r.random() < 0.5:
            nms = [x for x in r.sample(ITEM_NAMES, 3) if x not in vals]
            if not nms:
                return
            nm = nms[0]
            k = r.choice([1, 5, 7, 200])
            named = [[nm, k]] + [[x, 300 + i] for i, x in enumerate(nms[1:])]
            r.shuffle(named)
            comps = [["nn", self.tag(0.2), ["INTEGER", named, r.choice([None, [0, 1000, False]])], ["DEFAULT", ["id", nm]]]]
            if r.random() < 0.4:
                comps.insert(r.randint(0, 1), ["flag", None, ["BOOLEAN"], "OPTIONAL"])
            items.insert(r.randint(0, len(items)), ["type", "Nn-Holder", None, [r.choice(["SEQUENCE", "SET"]), comps, None]])
            v = k + 11
        else:
            enums = [it for it in items if it[0] == "type" and it[3][0] == "ENUM" and it[1].lower() not in KEYWORD_LIKE]
            if enums and r.random() < 0.5:
                e = r.choice(enums)
            else:
                e = ["type", "Chain-Enum", None, self.enum()]
                items.insert(r.randint(0, len(items)), e)
                self.defs[e[1]] = e[3]
            cands = [i[0] for i in e[3][1] if i[0] not in vals]
            if not cands:
                return
            nm = r.choice(cands)
            last = e[1]
            for h in range(r.choice([1, 1, 2, 3])):
                name = "Chain-L%d" % (h + 1)
                items.insert(r.randint(0, len(items)), ["type", name, self.tag(0.2), ["REF", last, None]])
                last = name
            comps = [["x", self.tag(0.2), ["REF", last, None], ["DEFAULT", ["id", nm]]]]
            items.insert(r.randint(0, len(items)), ["type", "Chain-Holder", None, [r.choice(["SEQUENCE", "SET"]), comps, None]])
            v = r.randint(0, 100)
        if with_value:
            items.insert(r.randint(0, len(items)), ["val", nm, ["INTEGER", [], None], ["int", v]])

    def inject_clash(self, items):
        """one identifier bound in two namespaces that a DEFAULT / a constraint could mean: an item of an ENUMERATED type
        and a value assignment of the same name (declared before or after the uses).  X.680: for a component whose type
        is (a reference to) that ENUMERATED the identifier is the item; everywhere else it is the value reference."""
        r = self.rng
        if any(it[1].lower() == "end" for it in items):
            return      # class assignment_named_end_truncates_module would drop some of the injected assignments
        enums = [it for it in items if it[0] == "type" and it[3][0] == "ENUM" and it[1].lower() not in KEYWORD_LIKE]
        if enums and r.random() < 0.6:
            e = r.choice(enums)
        else:
            e = ["type", "Clash-Enum", self.tag(0.2), self.enum()]
            items.insert(r.randint(0, len(items)), e)
            self.defs[e[1]] = e[3]
        nm = r.choice(e[3][1])[0]
        if any(it[0] == "val" and it[1] == nm for it in items):
            return
        v = r.randint(0, 100)
        comps = [["lvl", self.tag(0.2), ["REF", e[1], None], ["DEFAULT", ["id", nm]]]]
        k = r.random()
        if k < 0.7:
            comps.append(["n", self.tag(0.2), ["INTEGER", [], [0, 100, False]], ["DEFAULT", ["id", nm]]])
        if k > 0.4:
            comps.append(["o", None, ["OCTET", {"k": "fix", "n": ["ref", nm], "ext": False, "paren": True}], r.choice([None, "OPTIONAL"])])
        if r.random() < 0.4:
            comps.append(["i", None, ["INTEGER", [], [0, ["ref", nm], False]], None])
        if r.random() < 0.4:
            # an ENUMERATED type that does NOT have the item: the value reference is meant
            other = [[x, None] for x in ITEM_NAMES if x != nm][:r.randint(1, 3)]
            items.insert(r.randint(0, len(items)), ["type", "Clash-Other", None, ["ENUM", other, None]])
            comps.append(["lv2", None, ["REF", "Clash-Other", None], ["DEFAULT", ["id", nm]]])
        r.shuffle(comps)
        items.insert(r.randint(0, len(items)), ["type", "Clash-Holder", None, [r.choice(["SEQUENCE", "SET"]), comps, None]])
        items.insert(r.randint(0, len(items)), ["val", nm, ["INTEGER", [], None], ["int", v]])


# ====================================================================== printer

def lo_atom(v):
    return v[1] if isinstance(v, list) else str(v)


def size_atoms(s, of=False):
    if s is None:
        return []
    inner = ["SIZE", "("]
    if s["k"] == "fix":
        inner.append(lo_atom(s["n"]))
    else:
        inner += [lo_atom(s["lo"]), "..", lo_atom(s["hi"])]
    if s["ext"]:
        inner += [",", "..."]
    inner.append(")")
    if s["paren"] or not of:
        return ["("] + inner + [")"]
    return inner


def lit_atoms(l):
    k = l[0]
    if k == "bool":
        return ["TRUE" if l[1] else "FALSE"]
    if k == "int":
        return [str(l[1])]
    if k == "str":
        return ['"%s"' % l[1]]
    if k == "hex":
        return ["'%s'H" % l[1]]
    if k == "bin":
        return ["'%s'B" % l[1]]
    return [l[1]]


def tag_atoms(t):
    if t is None:
        return []
    return ["["] + ([["UNIVERSAL"], ["APPLICATION"], [], ["PRIVATE"]][t[0]]) + [str(t[1]), "]"]


def named_atoms(named):
    if not named:
        return []
    out = ["{"]
    for i, (nm, v) in enumerate(named):
        if i:
            out.append(",")
        out += [nm, "(", str(v), ")"]
    return out + ["}"]


def type_atoms(t):
    k = t[0]
    if k in ("BOOLEAN", "NULL"):
        return [k]
    if k == "INTEGER":
        out = ["INTEGER"] + named_atoms(t[1])
        if t[2] is not None:
            lo, hi, ext = t[2]
            out += ["(", lo_atom(lo), "..", lo_atom(hi)] + ([",", "..."] if ext else []) + [")"]
        return out
    if k == "STR":
        return [CHARSETS[t[1]]] + size_atoms(t[2])
    if k == "OCTET":
        return ["OCTET", "STRING"] + size_atoms(t[1])
    if k == "BITS":
        return ["BIT", "STRING"] + named_atoms(t[1]) + size_atoms(t[2])
    if k in ("SEQUENCE", "SET"):
        comps, ext = t[1], t[2]
        parts = []
        for i, (nm, tag, ct, opt) in enumerate(comps):
            if ext and ext[0] == i:
                parts.append(["..."])
            if ext and ext[1] == i:
                parts.append(["..."])
            a = [nm] + tag_atoms(tag) + type_atoms(ct)
            if opt == "OPTIONAL":
                a.append("OPTIONAL")
            elif opt:
                a += ["DEFAULT"] + lit_atoms(opt[1])
            parts.append(a)
        if ext and ext[0] == len(comps):
            parts.append(["..."])
        if ext and ext[1] == len(comps):
            parts.append(["..."])
        out = [k, "{"]
        for i, p in enumerate(parts):
            if i:
                out.append(",")
            out += p
        return out + ["}"]
    if k in ("SEQOF", "SETOF"):
        return ["SEQUENCE" if k == "SEQOF" else "SET"] + size_atoms(t[2], of=True) + ["OF"] + type_atoms(t[1])
    if k == "ENUM":
        parts = []
        for i, (nm, num) in enumerate(t[1]):
            if t[2] == i:
                parts.append(["..."])
            parts.append([nm] + (["(", str(num), ")"] if num is not None else []))
        if t[2] == len(t[1]):
            parts.append(["..."])
        out = ["ENUMERATED", "{"]
        for i, p in enumerate(parts):
            if i:
                out.append(",")
            out += p
        return out + ["}"]
    if k == "CHOICE":
        parts = []
        for i, (nm, tag, ct) in enumerate(t[1]):
            if t[2] == i:
                parts.append(["..."])
            parts.append([nm] + tag_atoms(tag) + type_atoms(ct))
        if t[2] == len(t[1]):
            parts.append(["..."])
        out = ["CHOICE", "{"]
        for i, p in enumerate(parts):
            if i:
                out.append(",")
            out += p
        return out + ["}"]
    if k == "REF":
        out = [t[1]]
        if t[2] is not None:
            out += ["(", "WITH", "COMPONENTS", "{"] + list(t[2]) + ["}", ")"]
        return out
    raise ValueError(k)


def oid_atoms(oid):
    if oid is None:
        return []
    out = ["{"]
    for c in oid:
        if c[0] == "num":
            out.append(str(c[1]))
        elif c[0] == "name":
            out.append(c[1])
        else:
            out += [c[1], "(", str(c[2]), ")"]
    return out + ["}"]


def atoms(A):
    """the lexical items of text(A), in order (compound items ::= .. ... "..." '...'H and -5 are single items)"""
    out = [A["name"]] + oid_atoms(A["oid"]) + ["DEFINITIONS"]
    if A.get("tagdefault"):
        out += [A["tagdefault"], "TAGS"]
    out += ["::=", "BEGIN"]
    if A["imports"] is not None and (A["imports"] or A.get("empty_imports")):
        out.append("IMPORTS")
        for what, frm, oid in A["imports"]:
            for i, w in enumerate(what):
                if i:
                    out.append(",")
                out.append(w)
            out += ["FROM", frm] + oid_atoms(oid)
        out.append(";")
    for it in A["items"]:
        if it[0] == "type":
            out += [it[1], "::="] + tag_atoms(it[2]) + type_atoms(it[3])
        else:
            out += [it[1]] + type_atoms(it[2]) + ["::="] + lit_atoms(it[3])
    return out + ["END"]


GAPS_REQ = [" ", " ", " ", " ", "\n", "\n", "  ", "\t", "\r\n", "\n    ", " -- note\n", " /* c */ ", "/* c */", " /* a\n b */ ", "\n\n",
            " --\n", "/**/"]


def layout(rng, items, style=None):
    """text(A): the items separated by random gaps; a gap may be empty unless both neighbours are text"""
    style = style if style is not None else rng.choice(["plain", "plain", "mixed", "dense", "lines"])
    out = []
    for i, a in enumerate(items):
        if i:
            prev = items[i - 1]
            need = prev[-1] not in SEP and a[0] not in SEP
            if style == "plain":
                g = " "
            elif style == "lines":
                g = "\n" if a in ("END", "IMPORTS") or prev in ("BEGIN", ";", ",", "{") or (i + 1 < len(items) and items[i + 1] == "::=") else " "
            elif style == "dense":
                g = " " if need else ""
            else:
                g = rng.choice(GAPS_REQ) if (need or rng.random() < 0.7) else ""
            out.append(g)
        out.append(a)
    if style != "dense" and rng.random() < 0.5:
        out.append(rng.choice(["\n", " ", "\n-- end\n", "\r\n"]))
    return "".join(out)


def text_of(A, rng=None, style="plain"):
    import random
    return layout(rng or random.Random(0), atoms(A), style)


# ====================================================================== canon: the dump a faithful front end produces

class Wild:
    """matches one <str> (len code*len) of the implementation's dump"""
    def __repr__(self):
        return "<str?>"


WILD_STR = Wild()

# quirks = named deviations of the crate; canon(A, quirks) applies the ones in the set
Q_INT_0_MAX = "integer_0_max_becomes_unconstrained"
Q_INT_MIN_I64MAX = "integer_min_i64max_becomes_unconstrained"
Q_SIZE_0_MAX = "size_0_max_becomes_unconstrained"
Q_MARKER_FIRST = "marker_before_first_component"
Q_SECOND_MARKER = "second_extension_marker_overwrites_first"
Q_WITH_COMPONENTS = "with_components_dropped"
Q_BIN_LIT = "bit_literal_right_aligned_length_lost"
Q_HEX_ODD = "hex_literal_odd_digits_padded_in_front"
Q_STR_LIT = "string_literal_rebuilt_from_tokens"
Q_MODULE_SUFFIX = "module_name_suffix_stripped"
Q_KEYWORD_REF = "type_reference_read_as_keyword"
Q_END_NAME = "assignment_named_end_truncates_module"
Q_NAMED_DEFAULT = "default_named_number_not_consulted"
Q_CHAIN_DEFAULT = "default_item_through_reference_chain_not_followed"
ALL_QUIRKS = [Q_NAMED_DEFAULT, Q_CHAIN_DEFAULT, Q_KEYWORD_REF, Q_END_NAME, Q_INT_0_MAX, Q_INT_MIN_I64MAX, Q_SIZE_0_MAX, Q_MARKER_FIRST, Q_SECOND_MARKER, Q_WITH_COMPONENTS, Q_BIN_LIT,
              Q_HEX_ODD, Q_STR_LIT, Q_MODULE_SUFFIX]


def c_str(s):
    return [len(s)] + [ord(c) for c in s]


def strip_module_suffix(name):
    for suf in ("_Module", "Module"):
        if name.endswith(suf):
            name = name[:len(name) - len(suf)]
    return name


def chain_enum_of(typedefs, name):
    seen = set()
    hops = 0
    while name in typedefs and name not in seen:
        seen.add(name)
        t = typedefs[name]
        if t[0] == "ENUM":
            return name if hops else None
        if t[0] != "REF" or t[2] is not None:
            return None
        name = t[1]
        hops += 1
    return None


class Canon:
    def __init__(self, A, quirks=(), env=None):
        self.A = A
        self.q = set(quirks)
        self.used = set()       # quirks that changed something
        self.has = set()        # quirks whose syntactic trigger occurs in A
        self.enums = {it[1]: it[3] for it in A["items"] if it[0] == "type" and it[3][0] == "ENUM"}
        self.typedefs = {}
        for it in A["items"]:
            if it[0] == "type" and it[1] not in self.typedefs:
                self.typedefs[it[1]] = it[3]
        self.values = {}
        for it in A["items"]:
            if it[0] == "val" and it[1] not in self.values:
                self.values[it[1]] = it[3]
        self.env = env or {}    # imported value name -> literal (C12)
        self.unresolved = []    # references a faithful resolver cannot resolve either

    def hit(self, q):
        self.has.add(q)
        if q in self.q:
            self.used.add(q)
            return True
        return False

    def name(self, n):
        if strip_module_suffix(n) != n and self.hit(Q_MODULE_SUFFIX):
            return c_str(strip_module_suffix(n))
        return c_str(n)

    def oid(self, oid):
        if oid is None:
            return [0]
        out = [1, len(oid)]
        for c in oid:
            if c[0] == "name":
                out += [0] + c_str(c[1])
            elif c[0] == "num":
                out += [1, c[1]]
            else:
                out += [2] + c_str(c[1]) + [c[2]]
        return out

    def tag(self, t):
        return [-1] if t is None else [t[0], t[1]]

    def value_of(self, v, what):
        """an integer bound: literal or reference to an INTEGER value"""
        if isinstance(v, list):
            lit = self.values.get(v[1], self.env.get(v[1]))
            if lit is None:
                self.unresolved.append(("dangling", v[1]))
                return 0
            if lit[0] != "int":
                self.unresolved.append(("not_integer", v[1]))
                return 0
            return lit[1]
        return v

    def chain_enum(self, name):
        """the local ENUMERATED that the type reference `name` leads to through ONE OR MORE plain type references
        (name itself is not an ENUMERATED definition), or None"""
        return chain_enum_of(self.typedefs, name)

    def lit(self, l, comp_type=None):
        k = l[0]
        if k == "bool":
            return [0, 1 if l[1] else 0]
        if k == "int":
            return [2, l[1]]
        if k == "str":
            s = l[1]
            clean = s != "" and s == s.strip(" ") and "  " not in s and not any(c in SEP for c in s) and "\t" not in s
            if not clean and self.hit(Q_STR_LIT):
                return [1, WILD_STR]
            return [1] + c_str(s)
        if k == "hex":
            h = l[1]
            if len(h) % 2 and self.hit(Q_HEX_ODD):
                h = "0" + h
            elif len(h) % 2:
                h = h + "0"        # X.680 23.x: a trailing zero digit is implied
            b = [int(h[i:i + 2], 16) for i in range(0, len(h), 2)]
            return [3, len(b)] + b
        if k == "bin":
            bits = l[1]
            if len(bits) % 8 and self.hit(Q_BIN_LIT):
                bits = "0" * (8 - len(bits) % 8) + bits
            elif len(bits) % 8:
                bits = bits + "0" * (8 - len(bits) % 8)     # left-aligned, X.690 8.6
            b = [int(bits[i:i + 8], 2) for i in range(0, len(bits), 8)]
            return [3, len(b)] + b
        if k == "id":
            if comp_type is not None and comp_type[0] == "REF" and comp_type[1] in self.enums and \
                    any(i[0] == l[1] for i in self.enums[comp_type[1]][1]):
                return [4] + c_str(comp_type[1]) + c_str(l[1])
            # X.680: an identifier of the component's OWN type comes first: a named number of its INTEGER type ...
            if comp_type is not None and comp_type[0] == "INTEGER" and any(nn[0] == l[1] for nn in comp_type[1]):
                same = self.values.get(l[1], self.env.get(l[1]))
                if same is not None and self.hit(Q_NAMED_DEFAULT):
                    return self.lit(same)           # the crate: the same-named value reference
                return [2, [nn[1] for nn in comp_type[1] if nn[0] == l[1]][0]]
            # ... an item of the ENUMERATED its type refers to through a chain of type references
            if comp_type is not None and comp_type[0] == "REF":
                e = self.chain_enum(comp_type[1])
                if e is not None and any(i[0] == l[1] for i in self.typedefs[e][1]):
                    same = self.values.get(l[1], self.env.get(l[1]))
                    if same is not None and self.hit(Q_CHAIN_DEFAULT):
                        return self.lit(same)
                    return [4] + c_str(e) + c_str(l[1])
            v = self.values.get(l[1], self.env.get(l[1]))
            if v is None:
                self.unresolved.append(("dangling", l[1]))
                return [2, 0]
            return self.lit(v)
        raise ValueError(k)

    def size(self, s):
        if s is None:
            return [0]
        ext = 1 if s["ext"] else 0
        if s["k"] == "fix":
            return [1, self.value_of(s["n"], "size"), ext]
        lo = 0 if s["lo"] == "MIN" else self.value_of(s["lo"], "size")
        hi = I64_MAX if s["hi"] == "MAX" else self.value_of(s["hi"], "size")
        if lo == 0 and hi == I64_MAX and not s["ext"] and self.hit(Q_SIZE_0_MAX):
            return [0]
        if lo == hi:
            return [1, lo, ext]
        return [2, lo, hi, ext]

    def consts(self, named):
        out = [len(named)]
        for nm, v in named:
            out += c_str(nm) + [v]
        return out

    def typ(self, t):
        k = t[0]
        if k == "BOOLEAN":
            return [0]
        if k == "NULL":
            return [5]
        if k == "INTEGER":
            if t[2] is None:
                r = [0, 0, 0]
            else:
                lo, hi, ext = t[2]
                lo_is_zero = lo == 0
                if lo_is_zero and hi == "MAX" and self.hit(Q_INT_0_MAX):
                    r = [0, 0, 1 if ext else 0]
                elif lo == "MIN" and hi == I64_MAX and self.hit(Q_INT_MIN_I64MAX):
                    r = [0, 0, 1 if ext else 0]
                else:
                    r = ([0] if lo == "MIN" else [1, self.value_of(lo, "range")]) + \
                        ([0] if hi == "MAX" else [1, self.value_of(hi, "range")]) + [1 if ext else 0]
            return [1] + r + self.consts(t[1])
        if k == "STR":
            return [2] + self.size(t[2]) + [t[1]]
        if k == "OCTET":
            return [3] + self.size(t[1])
        if k == "BITS":
            return [4] + self.size(t[2]) + self.consts(t[1])
        if k in ("SEQUENCE", "SET"):
            comps, ext = t[1], t[2]
            out = [8 if k == "SEQUENCE" else 10, len(comps)]
            for nm, tag, ct, opt in comps:
                out += c_str(nm) + self.tag(tag)
                inner = self.typ(ct)
                if opt == "OPTIONAL":
                    out += [6] + inner + [0]
                elif opt:
                    out += inner + [1] + self.lit(opt[1], ct)
                else:
                    out += inner + [0]
            if ext is None:
                out.append(-1)
            else:
                k1, k2 = ext
                if k2 is not None and self.hit(Q_SECOND_MARKER):
                    k1 = k2
                if k1 == 0:
                    out.append(0 if self.hit(Q_MARKER_FIRST) else -2)   # -2: no root component; not representable
                else:
                    out.append(k1 - 1)
            return out
        if k in ("SEQOF", "SETOF"):
            return [9 if k == "SEQOF" else 11] + self.typ(t[1]) + self.size(t[2])
        if k == "ENUM":
            out = [12, len(t[1])]
            for nm, num in t[1]:
                out += c_str(nm) + [-1 if num is None else num]
            return out + [-1 if t[2] is None else t[2] - 1]
        if k == "CHOICE":
            out = [13, len(t[1])]
            for nm, tag, ct in t[1]:
                out += c_str(nm) + self.tag(tag) + self.typ(ct)
            return out + [-1 if t[2] is None else t[2] - 1]
        if k == "REF" and KEYWORD_LIKE.get(t[1].lower()) is not None and self.hit(Q_KEYWORD_REF):
            return list(KEYWORD_LIKE[t[1].lower()])
        if k == "REF":
            if t[2] is not None and not self.hit(Q_WITH_COMPONENTS):
                return [14] + c_str(t[1]) + [-1, -3]        # -3: an inner type constraint the model has no place for
            return [14] + c_str(t[1]) + [-1]
        raise ValueError(k)

    def module(self):
        A = self.A
        out = self.name(A["name"]) + self.oid(A["oid"])
        out.append(len(A["imports"]))
        for what, frm, oid in A["imports"]:
            out.append(len(what))
            for w in what:
                out += c_str(w)
            out += self.name(frm) + self.oid(oid)
        items = A["items"]
        for i, it in enumerate(items):
            if it[1].lower() == "end" and self.hit(Q_END_NAME):
                items = items[:i]
                break
        defs = [it for it in items if it[0] == "type"]
        vals = [it for it in items if it[0] == "val"]
        out.append(len(defs))
        for _, nm, tag, t in defs:
            out += c_str(nm) + self.tag(tag) + self.typ(t) + [0]
        out.append(len(vals))
        for _, nm, t, lit in vals:
            out += c_str(nm) + [-1] + self.typ(t) + [0] + self.lit(lit)
        return out


def canon(A, quirks=(), env=None):
    c = Canon(A, quirks, env)
    return c.module(), c


def matches(expected, actual):
    """expected may contain WILD_STR items"""
    p = 0
    for e in expected:
        if e is WILD_STR:
            if p >= len(actual) or actual[p] < 0:
                return False
            p += 1 + actual[p]
        else:
            if p >= len(actual) or actual[p] != e:
                return False
            p += 1
    return p == len(actual)


# ---- syntactic triggers of the known rejections (the crate returns an error for a legal module)

def walk_types(t, f):
    f(t)
    k = t[0]
    if k in ("SEQUENCE", "SET"):
        for c in t[1]:
            walk_types(c[2], f)
    elif k in ("SEQOF", "SETOF"):
        walk_types(t[1], f)
    elif k == "CHOICE":
        for a in t[1]:
            walk_types(a[2], f)


def all_types(A):
    out = []
    for it in A["items"]:
        walk_types(it[3] if it[0] == "type" else it[2], out.append)
    return out


def all_literals(A):
    out = []
    for it in A["items"]:
        if it[0] == "val":
            out.append((it[3], it[2]))
    for t in all_types(A):
        if t[0] in ("SEQUENCE", "SET"):
            for c in t[1]:
                if isinstance(c[3], list):
                    out.append((c[3][1], c[2]))
    return out


def all_sizes(A):
    out = []
    for t in all_types(A):
        s = {"STR": 2, "OCTET": 1, "BITS": 2, "SEQOF": 2, "SETOF": 2}.get(t[0])
        if s is not None and t[s] is not None:
            out.append(t[s])
    return out


def rejection_triggers(A):
    """known families of legal modules the crate rejects: [(class, description, signature)];
    signature(o) says whether the error answer `o` is the one this family produces"""
    out = []

    def parse_err(kind=None, sep=None):
        def f(o):
            if o[1] != 1 or (kind is not None and o[2] != kind):
                return False
            if sep is not None:
                return o[3:4] == [1] and o[6:8] == [1, ord(sep)]
            return True
        return f

    def resolve_err(kind, name):
        def f(o):
            return o[1] == 2 and o[2] == kind and o[3:] == c_str(name)
        return f

    typedefs = {}
    for it in A["items"]:
        if it[0] == "type" and it[1] not in typedefs:
            typedefs[it[1]] = it[3]
    vals = {it[1] for it in A["items"] if it[0] == "val"}
    # F07-8: everything from an assignment named `end` (any case) on is dropped; a reference from the kept part to a dropped
    # type, value or item of a dropped ENUMERATED then fails to resolve
    for k, it in enumerate(A["items"]):
        if it[1].lower() == "end":
            dropped = set()
            for d in A["items"][k:]:
                dropped.add(d[1])
                if d[0] == "type" and d[3][0] == "ENUM":
                    dropped.update(i[0] for i in d[3][1])

            def end_sig(o, dropped=dropped):
                if o[1] != 2:
                    return False
                try:
                    name = "".join(chr(c) for c in o[4:4 + o[3]])
                except (ValueError, IndexError):
                    return False
                return name in dropped
            out.append((Q_END_NAME, QUIRK_TEXT[Q_END_NAME] + " (here: a reference into the dropped part no longer resolves)", end_sig))
            break
    for s in all_sizes(A):
        if s["k"] == "range" and s["ext"] and s["lo"] in (0, "MIN") and s["hi"] in ("MAX", I64_MAX):
            out.append(("size_0_max_extensible_rejected", "SIZE(0..MAX, ...) is a parse error: after folding 0..MAX to 'no constraint' the parser insists on ')'",
                        parse_err(3, ",")))
    for l, t in all_literals(A):
        if l[0] == "str" and l[1] == "":
            out.append(("empty_string_literal_rejected", 'the empty string literal "" is not read as a literal: the closing quote is taken as content',
                        parse_err()))
        if l[0] == "id" and t[0] == "ENUM":
            out.append(("default_item_of_inline_enumerated_unresolved", "DEFAULT <item> on an inline ENUMERATED is looked up as a value reference and fails to resolve",
                        resolve_err(1, l[1])))
        if l[0] == "id" and t[0] == "INTEGER" and any(nn[0] == l[1] for nn in t[1]) and l[1] not in vals:
            out.append((Q_NAMED_DEFAULT, QUIRK_TEXT[Q_NAMED_DEFAULT], resolve_err(1, l[1])))
        if l[0] == "id" and t[0] == "REF":
            e = chain_enum_of(typedefs, t[1])
            if e is not None and any(i[0] == l[1] for i in typedefs[e][1]) and l[1] not in vals:
                out.append((Q_CHAIN_DEFAULT, QUIRK_TEXT[Q_CHAIN_DEFAULT], resolve_err(1, l[1])))
        if l[0] == "id" and t[0] == "REF" and KEYWORD_LIKE.get(t[1].lower()) is not None:
            out.append((Q_KEYWORD_REF, QUIRK_TEXT[Q_KEYWORD_REF] + " (here: DEFAULT <item> of the referenced ENUMERATED no longer resolves)",
                        resolve_err(1, l[1])))
    for t in all_types(A):
        if t[0] == "INTEGER" and t[2] is not None:
            for b in t[2][:2]:
                if isinstance(b, int) and not -(2 ** 63) <= b <= I64_MAX:
                    out.append(("integer_bound_beyond_i64_rejected", "an INTEGER bound outside i64 is read as a value reference and fails to resolve",
                                resolve_err(1, str(b))))
        if t[0] == "REF" and t[1].lower() in KEYWORD_LIKE and KEYWORD_LIKE[t[1].lower()] is None:
            out.append(("type_reference_like_keyword_rejected", "a typereference that differs from SET/CHOICE/.. only by case is read as that keyword",
                        parse_err()))
    return out


QUIRK_TEXT = {
    Q_INT_0_MAX: "INTEGER (0..MAX) is stored as an unconstrained INTEGER (lower bound 0 dropped: silently widened; pinned by the crate's own tests)",
    Q_INT_MIN_I64MAX: "INTEGER (MIN..9223372036854775807) is stored as unconstrained (upper bound dropped)",
    Q_SIZE_0_MAX: "SIZE(0..MAX) is stored as 'no size constraint' (same value set; the constraint itself is not kept)",
    Q_MARKER_FIRST: "an extension marker before the first component is recorded as extension_after = Some(0), i.e. 'after component 0'",
    Q_SECOND_MARKER: "a second extension marker overwrites the position of the first; components after it are kept as additions",
    Q_WITH_COMPONENTS: "( WITH COMPONENTS {..} ) after a type reference is parsed and dropped",
    Q_BIN_LIT: "a bstring literal whose length is not a multiple of 8 is stored right-aligned in whole octets: its bit length is lost",
    Q_HEX_ODD: "an hstring literal with an odd number of digits gets its *first* digit as an octet of its own ('ABC'H -> 0A BC instead of AB C0)",
    Q_STR_LIT: "a cstring literal is rebuilt from tokens and columns: leading/trailing blanks and a leading separator character are lost",
    Q_KEYWORD_REF: "keywords are matched case-insensitively: a reference to a type named Integer / Boolean / Null is replaced by the unconstrained builtin (constraints of the referenced type silently dropped)",
    Q_END_NAME: "an assignment whose name is 'end' in any case (legal valuereference / typereference End) ends the module: everything after it is silently dropped",
    Q_NAMED_DEFAULT: "DEFAULT <identifier> on an INTEGER component with a named number of that name: the named numbers of the component's own type are never consulted -- the identifier is looked up as a value reference (FailedToResolveReference when no value of that name exists, silently the same-named value's literal when one exists)",
    Q_CHAIN_DEFAULT: "DEFAULT <item> on a component whose type refers to an ENUMERATED through a chain of type references (L2 ::= Level, x L2 DEFAULT item): only a definition that is itself an ENUMERATED is inspected -- the item is looked up as a value reference (FailedToResolveReference without a same-named value, silently that value's literal with one)",
    Q_MODULE_SUFFIX: "a module name (own or in FROM) ending in 'Module' / '_Module' loses that suffix",
}


def judge(A, out_ints, text, env=None):
    """the C07 oracle on one dump: None | list of (class, description)"""
    o = out_ints
    faithful, c0 = canon(A, (), env)
    if o[:1] == [0] and matches(faithful, o[1:]):
        return None
    rej = rejection_triggers(A)
    if o[:1] == [3]:
        return [("front_end_crash", "front end crashed or hung (%s) on: %s" % (o, text))]
    if o[:1] == [2]:
        return [("front_end_panic", "panic %s on a legal module: %s" % (o, text))]
    if o[:1] == [1]:
        if c0.unresolved and o[1] == 2:
            return None                 # a reference nobody can resolve: an error is the right answer
        hits = []
        for c, d, sig in rej:
            if sig(o) and c not in [h[0] for h in hits]:
                hits.append((c, "%s :: answer %s :: %s" % (d, o[:8], text)))
        if hits:
            return hits[:1] if len(hits) > 1 and hits[0][0] != "empty_string_literal_rejected" else hits
        return [("legal_module_rejected", "stage %s error %s on a legal module: %s" % (o[1], o[2:12], text))]
    if o[:1] != [0]:
        return [("malformed_answer", str(o[:20]))]
    # a model came back but it is not the faithful one: which quirks explain it?
    applicable = [q for q in ALL_QUIRKS if q in canon(A, ALL_QUIRKS, env)[1].used]
    full, _ = canon(A, applicable, env)
    if matches(full, o[1:]):
        needed = []
        for q in applicable:
            rest = [x for x in applicable if x != q]
            alt, _ = canon(A, rest, env)
            if not matches(alt, o[1:]):
                needed.append(q)
        return [(q, "%s :: %s" % (QUIRK_TEXT[q], text)) for q in (needed or applicable)]
    # try subsets (a quirk may apply at one place only by accident of the values): greedy removal
    for q in applicable:
        sub = [x for x in applicable if x != q]
        alt, _ = canon(A, sub, env)
        if matches(alt, o[1:]):
            return [(x, "%s :: %s" % (QUIRK_TEXT[x], text)) for x in sub]
    # locate the first difference for the report
    p = 0
    for e in full:
        if e is WILD_STR:
            break
        if p >= len(o) - 1 or o[1 + p] != e:
            break
        p += 1
    return [("unexplained_mismatch", "dump differs from canon(A) at offset %d (got %s, want %s) :: %s" %
             (p, o[1 + max(0, p - 3):1 + p + 6], [x for x in full[max(0, p - 3):p + 6]], text))]


# ====================================================================== case lines

def case_line(op, meta_obj, ints):
    meta = list(json.dumps(meta_obj, separators=(",", ":")).encode())
    return "%d %d %s %s" % (op, len(meta), " ".join(map(str, meta)), " ".join(map(str, ints)))


def split_line(line):
    a = line.split()
    op = int(a[0])
    if op in (3311, 3312, 3313, 3314):
        k = int(a[1])
        meta = json.loads(bytes(int(x) for x in a[2:2 + k]).decode())
        return op, meta, [int(x) for x in a[2 + k:]]
    return op, None, [int(x) for x in a[1:]]


def line_3311(A, text):
    return case_line(3311, A, [ord(c) for c in text])


THEOREMS = ["C07_parse_print_tag_partial", "C07_parse_print_opt_tag_partial", "C07_parse_print_size_partial",
            "C07_parse_print_named_numbers_partial", "C07_parse_print_integer_range_partial",
            "C07_parse_print_integer_unconstrained_partial",
            "C07_refuted_integer_0_max_becomes_unconstrained", "C07_refuted_size_0_max_becomes_unconstrained",
            "C07_refuted_marker_before_first_component", "C07_refuted_second_extension_marker_overwrites_first",
            "C07_refuted_with_components_dropped", "C07_refuted_type_reference_read_as_keyword",
            "C07_refuted_assignment_named_end_truncates_module", "C07_refuted_size_0_max_extensible_rejected",
            "C07_refuted_bit_literal_right_aligned_length_lost", "C07_refuted_module_name_suffix_stripped",
            "C07_refuted_default_named_number_not_consulted", "C07_refuted_default_item_through_reference_chain_not_followed",
            "C07_parse_print_enumerated", "C07_parse_print_literal_partial", "C07_parse_print_value_reference",
            "C07_parse_print_oid", "C07_parse_print_opt_oid", "C07_parse_print_imports", "C07_parse_print_type",
            "C07_parse_print", "C07_parse_print_module_items",
            "C07_refuted_string_literal_rebuilt_from_tokens", "C07_refuted_empty_string_literal_rejected",
            "C07_refuted_string_literal_quote_escape_rejected", "C07_refuted_hex_literal_odd_digits_padded_in_front",
            "C07_refuted_assignment_named_size_after_string_type_rejected"]


class C07(Spec):
    prop = "C07"
    coq_targets = ["Props/C07.vo"]
    prop_module = "Props.C07"
    theorems = THEOREMS
    MODEL_OPS = {3301, 3311}    # ops the Coq model answers (others: comparison vacuous, see canon())
    builds = [("default", "dev"), ("default", "release")]
    level_text = ('A hand-written Gallina model of the tokenizer, the recursive-descent parser (asn/model.rs and asn/*.rs, '
                  'function for function, fuelled) and the resolver (resolve_scope.rs) is tied to the crate by differential '
                  'execution of whole module texts (op 3301: the complete resolved Model<Asn<Resolved>> or the error with its '
                  "token must be equal); independently the crate's dump is confronted with canon(A) computed in Python from the "
                  'abstract module A each text was printed from. Theorems '
                  '(Front/{ParseProofs,TypeGrammarProofs,ModuleGrammarProofs}.v): parse-after-print for every sub-language (tags, '
                  'SIZE, INTEGER ranges, named numbers/bits, ENUMERATED, object identifiers, IMPORTS, the mutually recursive type '
                  'grammar C07_parse_print_type) and for whole modules (C07_parse_print: parse (print_module m) = denote_module m '
                  'for every wf_module, outside the forms the parser rewrites, which are excluded as named classes with one '
                  'vm_compute witness each); literals are _partial (booleans, integers, column-placed strings, even hex, '
                  "multiple-of-8 bit strings). Printing is over token lists: lexing of the printed text is C13's theorem. "
                  "Name clashes (one identifier an ENUMERATED item and a value reference) are generated: canon(A) says the item of "
                  "the component's own ENUMERATED wins and everything else means the value; the two deviations found there are "
                  "the known classes default_named_number_not_consulted (a named number of the component's own INTEGER type is "
                  "never consulted by DEFAULT <identifier>) and default_item_through_reference_chain_not_followed (the "
                  "ENUMERATED is only found when the component's type refers to it directly).")
    rule = ("grammar-based generator of abstract modules (definitions in order: SEQUENCE/SET with tags, OPTIONAL, DEFAULT "
            "literals of each kind, extension markers at every position incl. before the first component and a second "
            "marker; CHOICE/ENUMERATED with numbers and markers; SEQUENCE OF/SET OF; INTEGER with ranges A..B, MIN/MAX, "
            "extensible, named numbers; BOOLEAN; NULL; OCTET STRING; BIT STRING with named bits; the five string kinds with "
            "SIZE(n), SIZE(a..b), MIN/MAX, extensible, bare/parenthesised; type references, WITH COMPONENTS; value "
            "assignments; IMPORTS with/without OID; module OIDs; nesting depth <= 5; in 12% of the modules a name clash: a value "
            "assignment named like an item of an ENUMERATED, declared before or after, used as DEFAULT of a component of that "
            "ENUMERATED, of an INTEGER, of another ENUMERATED, and as SIZE / range bound; in 5% DEFAULT <identifier> where the "
            "identifier is a named number of the component's INTEGER type or an item of an ENUMERATED reached through 1..3 "
            "type references, each without and with a same-named value assignment), printed with random layout (blanks, "
            "line ends, line and block comments, dense). non-trivial = the front end returned a model with at least one "
            "definition; distinct = distinct case line")
    assumptions_text = ["the integer dump of Model<Asn<Resolved>> in harness/a1h/src/parse.rs (public fields and accessors only)",
                        "parse::ErrorKind is recovered from the Display text of parse::Error"]
    xcheck_n = 50
    timeout_per_chunk = 300

    def __init__(self):
        self._last = None

    def model_line(self, line, build):
        op = int(line.split(None, 1)[0])
        if op in self.MODEL_OPS:
            return line
        return "3399"           # the model answers -1: see canon()

    def canon(self, out):
        # vlib compares canon(impl answer) with canon(model answer), in this order, for every case.  For the ops the
        # Coq model does not implement yet its answer is "-1" (unknown op) and the comparison is made vacuous HERE,
        # for those ops only; an op listed in MODEL_OPS is compared for real.
        if out == "-1":
            return self._last
        self._last = out
        return out

    def gen(self, rng, tier):
        n = 4000 if tier == "quick" else 100000
        L = []
        for i in range(n):
            g = Gen(rng, special=0.05 if i % 4 else 0.0, max_depth=rng.choice([2, 3, 4, 5]))
            A = g.module()
            L.append(line_3311(A, layout(rng, atoms(A))))
        return L

    def oracle(self, line, out, build):
        try:
            op, A, _ = split_line(line)
        except Exception:
            return None
        if A is None or op != 3311:
            return None
        o = [int(x) for x in out.split()]
        text = text_of(A)
        return judge(A, o, text)

    def nontrivial(self, line, out):
        return out.startswith("0 ")


SPEC = C07()
