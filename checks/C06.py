from vlib import Spec
import uperlib as U
import dectype

CONSTRAINT_ERRS = {2, 7, 9, 12}   # InvalidString, InvalidChoiceIndex, ValueNotInRange, SizeNotInRange


def violations(t, v):
    """list of (kind, extensible_at_that_point) for every constraint v breaks"""
    out = []

    def f(tt, vv, path):
        if vv is None:
            return
        k = tt[0]
        if k == "int":
            hl, lo, hh, hi, ext = tt[2]
            klo, khi = U.KIND_RANGE[tt[1]]
            if (hl and vv[1] < lo) or (hh and vv[1] > hi):
                out.append(("range", ext))
            elif not ext and not hl and hh and vv[1] < 0:
                out.append(("range_missing_lower", ext))
        elif k == "str":
            bad = [c for c in vv[1] if not U.cs_valid(tt[1], c)]
            if bad:
                out.append(("alphabet", False))
            if not U.in_size(len(vv[1]), tt[2]):
                out.append(("size", tt[2][2]))
        elif k == "oct":
            if not U.in_size(len(vv[1]), tt[1]):
                out.append(("size", tt[1][2]))
        elif k == "bits":
            if not U.in_size(vv[2], tt[1]):
                out.append(("size", tt[1][2]))
        elif k == "list":
            if not U.in_size(len(vv[1]), tt[2]):
                out.append(("size", tt[2][2]))
        elif k == "choice":
            std, ext = tt[2]
            if vv[1] >= std and not ext:
                out.append(("index", False))
        elif k == "enum":
            std, ext = tt[2]
            if vv[1] >= std and not ext:
                out.append(("index", False))
    dectype.walk(t, v, f)
    return out


class C06(Spec):
    prop = "C06"
    coq_targets = ["Props/C06.vo"]
    prop_module = "Props.C06"
    theorems = ['C06_constrained_reject', 'C06_nnbi_reject', 'C06_index_reject', 'C06_octetstring_size_reject', 'C06_bitstring_size_reject', 'C06_int_reject', 'C06_octets_reject', 'C06_bits_reject', 'C06_enum_reject', 'C06_choice_reject', 'C06_alphabet_reject', 'C06_string_size_reject', 'C06_list_size_reject',
                'C06_writer_never_panics', 'C06_violating_value_has_no_encoding', 'C06_reject_nested', 'C06_reject_nested_in_scope',
                'C06_never_wrong_encoding', 'C06_no_other_value',
                'C06_extensible_int_out_of_root_roundtrips', 'C06_extensible_octets_out_of_root_roundtrips',
                'C06_nested_nonvacuous', 'C06_violates_tight', 'C06_kinds_ok_needed', 'C06_extensible_nonvacuous']
    builds = [("default", "dev"), ("default", "release")]
    timeout_per_chunk = 600
    xcheck_n = 60
    level_text = ("Rejection theorems over the L1/L2 writer model: every primitive writer and every top-level type answers the named constraint error "
                  "(C06_*_reject); at EVERY nesting depth (C06_reject_nested: violates t v = some encoded position - present OPTIONAL, DEFAULT different from "
                  "its default, list element, selected CHOICE alternative, extension additions included - breaks a non-extensible INTEGER range / SIZE / "
                  "alphabet / index constraint) write_ty answers Err e - never Ok and never a panic (C06_writer_never_panics: no panic on any value of the "
                  "Rust type, no Known class excluded); inside any enclosing scope never Ok (C06_reject_nested_in_scope). Not proved: WHICH error kind at "
                  "depth (an earlier sibling may fail first for another reason); hypotheses wf_ty, wf_val (fits the Rust type only) and kinds_ok (u64 only "
                  "with a non-negative lower bound). Never a wrong encoding = C01 round trip read for values outside the constraints "
                  "(C06_never_wrong_encoding, C06_no_other_value); extensible INTEGER / OCTET STRING out-of-root values are written in the extension form and "
                  "round-trip (C06_extensible_*_out_of_root_roundtrips). Model tied to the crate by "
                  "differential execution on values just outside and far outside each bound, judged by an independent sat() oracle.")
    rule = ("for random grid types (depth <= 3): one violated constraint per case, placed at a random nesting position: INTEGER lb-1 / ub+1 / "
            "type extremes, SIZE lb-1 / ub+1 / 0 / large for strings, octet/bit strings and lists, one illegal character at first/middle/last "
            "position for each restricted alphabet (boundary code points '/', ':', 0x1F, 0x7F, 0x80, a 2-byte UTF-8 char), CHOICE/ENUMERATED index "
            "outside a non-extensible root; the same for extensible constraints (must be accepted and round-trip). "
            "non-trivial = the case carries a violation; distinct = distinct case line")
    assumptions_text = ["descriptor constants consistent with the field list", "u64 is generated only for INTEGER types without a negative lower bound (kinds_ok)"]

    def gen(self, rng, tier):
        q = tier == "quick"
        L = []
        n = 6000 if q else 50000
        tries = 0
        while len(L) < n and tries < n * 20:
            tries += 1
            t = U.gen_ty(rng, rng.randrange(0, 4))
            v = U.gen_val(rng, t, "valid")
            v2 = self.break_one(rng, t, v)
            if v2 is None:
                continue
            L.append(U.line(1201, [1] + U.enc_ty(t) + U.enc_val(v2)))
        return L

    def break_one(self, rng, t, v):
        """return a copy of v with exactly one constraint violated at a random position, or None"""
        spots = []

        def f(tt, vv, path):
            if vv is not None and tt[0] in ("int", "str", "oct", "bits", "list", "choice", "enum"):
                spots.append(path)
        dectype.walk(t, v, f)
        if not spots:
            return None
        target = rng.choice(spots)

        def rebuild(tt, vv, path):
            if vv is None:
                return None
            if path == target:
                return self.broken(rng, tt, vv)
            k = tt[0]
            if k == "list":
                return ("list", [rebuild(tt[1], x, path + (("elem", i),)) if i < 64 else x for i, x in enumerate(vv[1])])
            if k == "seq":
                return ("seq", [rebuild(ft, x, path + (("field", i, fk, tt[2]),)) for i, ((fk, d, ft), x) in enumerate(zip(tt[1], vv[1]))])
            if k == "choice":
                return ("choice", vv[1], rebuild(tt[1][vv[1]], vv[2], path + (("alt", vv[1], tt[2]),)))
            return vv
        r = rebuild(t, v, ())
        return r if r != v else None

    def broken(self, rng, t, v):
        k = t[0]
        if k == "int":
            hl, lo, hh, hi, ext = t[2]
            klo, khi = U.KIND_RANGE[t[1]]
            c = []
            if hl and lo - 1 >= klo:
                c += [lo - 1, klo]
            if hh and hi + 1 <= khi:
                c += [hi + 1, khi]
            return ("int", rng.choice(c)) if c else v
        if k == "str":
            key = t[2]
            r = rng.random()
            if r < 0.5 and t[1] != U.CS_UTF8 and len(v[1]) > 0:
                pos = rng.choice([0, len(v[1]) // 2, len(v[1]) - 1])
                cs = list(v[1])
                # boundary code points of each alphabet, Latin-1, and code points above U+00FF whose low byte is a
                # legal character (the writer narrows with `as u8`)
                bad = {U.CS_NUM: [47, 58, 33, 65, 0xE4, 0x130, 0x120, 0x1F630], U.CS_PRINT: [42, 59, 64, 38, 0xE4, 0x141, 0x220, 0x1F641],
                       U.CS_IA5: [128, 0xE4, 0x20AC, 0x141, 0x17E, 0x2041, 0x1F642, 0x100],
                       U.CS_VIS: [31, 127, 128, 0xE4, 0x141, 0x17E, 0x2041, 0x1F642, 0x120]}[t[1]]
                cs[pos] = rng.choice(bad)
                return ("str", cs)
            n = U.gen_len(rng, key, "bad")
            if n is None or n > 70000:
                return v
            return ("str", U.gen_chars(rng, t[1], n))
        if k in ("oct", "bits", "list"):
            key = t[1] if k != "list" else t[2]
            n = U.gen_len(rng, key, "bad")
            if n is None or n > (70000 if k != "list" else 300):
                return v
            if k == "oct":
                return ("oct", [rng.randrange(256) for _ in range(n)])
            if k == "bits":
                nb = (n + 7) // 8
                bs = [rng.randrange(256) for _ in range(nb)]
                if n % 8:
                    bs[-1] &= (0xFF << (8 - n % 8)) & 0xFF
                return ("bits", bs, n)
            return ("list", [U.gen_val(rng, t[1], "valid") for _ in range(n)])
        if k == "enum":
            std, ext = t[2]
            if t[1] > std:
                return ("enum", rng.randrange(std, t[1]))
            return v
        if k == "choice":
            std, ext = t[2]
            if len(t[1]) > std:
                i = rng.randrange(std, len(t[1]))
                return ("choice", i, U.gen_val(rng, t[1][i], "valid"))
            return v
        return v

    def canon(self, out):
        if out.startswith("3 ") or out.endswith(" 2 7") or out.endswith(" 2 3") or out == "2 7":
            return "UNBOUNDED"
        return out

    def oracle(self, line, out, build):
        a = list(map(int, line.split()))
        o = list(map(int, out.split()))
        t, i = dectype.dec_ty(a, 2)
        v, i = U.dec_val(a, i)
        vio = violations(t, v)
        hard = [x for x in vio if not x[1]]
        if o[0] in (2, 3):
            if o[0] == 3 and self._big(t, v):
                # the child died (allocation failure) while reading the value back: values of 16K+ elements run into the
                # fragmentation findings (F01-2) and the untrusted-length allocation (F04-1); C01 and C04 judge those
                return None
            cls = "encode_panics"
            if any(x[0] == "size" for x in vio) and self._f10_1(t, v):
                cls = "semi_size_encode_panics"
            return (cls, "encoder panicked/crashed on %s: %s" % (vio, out[:30]))
        if o[0] == 1 and o[1] == 8:
            return None    # ExtensionFieldsInconsistent: presence pattern of the additions, judged by C03
        if hard:
            if o[0] == 1:
                if o[1] in CONSTRAINT_ERRS:
                    return None
                return ("wrong_error_kind", "violation %s reported as error kind %d" % (hard, o[1]))
            kinds = sorted(set(x[0] for x in hard))
            return ("accepted_" + "_".join(kinds), "value violating %s was encoded" % hard)
        if vio:
            # only extensible constraints are exceeded: must be accepted and round-trip
            if o[0] == 1:
                if self._f10_1(t, v) or self._big(t, v):
                    return None
                return ("extensible_rejected", "out-of-root value of an extensible constraint was rejected: %s" % o[:2])
            nb = o[2]
            j = 3 + nb
            if o[j] != 0:
                if self._big(t, v):
                    return None
                return ("extensible_decode_fails", "out-of-root value does not decode: %s" % o[j:j + 2])
            got, j = U.dec_val(o, j + 1)
            if got != v and not self._big(t, v):
                return ("extensible_decode_differs", "out-of-root value decodes to %s" % str(got)[:80])
        return None

    def _big(self, t, v):
        return dectype.find(t, v, lambda tt, vv: vv is not None and ((tt[0] == "bits" and vv[2] >= 16384) or
                                                                   (tt[0] in ("str", "list", "oct") and len(vv[1]) >= 16384)))

    def _f10_1(self, t, v):
        def p(tt, vv):
            key = tt[1] if tt[0] in ("oct", "bits") else (tt[2] if tt[0] in ("str", "list") else None)
            return key is not None and (key[0] >= 0 or key[1] >= 0) and (key[1] < 0 or key[1] >= 65536)
        return dectype.find(t, v, p)

    def nontrivial(self, line, out):
        return True


SPEC = C06()
